// Package c18 decides property C18: request accessors never panic and follow
// one rule (present -> the value, converted by the standard rules, zero on
// malformed text; absent or empty -> the caller's default or zero), and a
// cookie written with SetCookie reads back byte for byte.
package c18

import (
	"encoding/json"
	"fmt"
	"io"
	"math"
	"math/big"
	"net/http"
	"regexp"
	"strconv"
	"strings"
	"testing"

	"pgregory.net/rapid"

	"github.com/flamego/flamego"
	"github.com/flamego/flamego/verifharness/internal/evid"
	"github.com/flamego/flamego/verifharness/internal/gen"
	"github.com/flamego/flamego/verifharness/internal/model"
	"github.com/flamego/flamego/verifharness/internal/rt"
)

const rule = "case = one request: a query string (value-first: generated values - arbitrary bytes, separators, blanks, non-ASCII, numbers at and beyond the int range, boolean and float literals, garbage - are percent-encoded by the harness' own encoder; optionally next to malformed pairs under other keys; or a raw hostile query string), a bind parameter value sent through a /{v} route, a cookie value (arbitrary bytes, one time in twelve 0.5..70 KB of them, read twice; optionally every cookie on a Cookie header line of its own behind another cookie's line; optionally written after a cookie whose name extends its name, and sent next to cookies whose names differ in letter case only) and a raw Cookie header; optionally the request arrives with another query which a middleware replaces by the one under test before any accessor is called; optionally the request is a POST whose urlencoded body (parsed by an earlier handler) carries other values under the same key; every accessor is called with and without a default; optionally two further requests to one route with a bind, the first of which writes a key into its own Params() that the second reads. " +
	"Oracle: no panic; an own evaluation of the rule (own percent codec, own integer recogniser + big.Int range check, own 12-literal boolean table, exact float round trip, trim = TrimSpace of Query); the Set-Cookie header produced by SetCookie is fed back as a Cookie header and must read back byte for byte. " +
	"non-trivial = a value with control bytes, separators (; , = & % + blank), non-ASCII / invalid UTF-8, a number at or over the int range, a malformed typed value with a default supplied, or a raw hostile query / cookie header; distinct by case text"

var assumptions = []string{
	"out-of-range integers are unspecified (the statement says zero on malformed text; a clamped value is what strconv reports)",
	"QueryStrings of a present key returns the list as parsed: the repository's suite pins 'k=' -> [\"\"], so the absent-or-empty rule is applied to the scalar accessors only",
	"raw hostile query strings and cookie headers are checked for totality and internal consistency only (net/http decides what they contain)",
}

func TestMain(m *testing.M) { evid.Main(m, "C18", rule, assumptions) }

type Case struct {
	// value-first query: key "k" carries V (strconv.Quote form), repeated Extra times more with other values
	V      string   `json:"v"`
	More   []string `json:"more,omitempty"` // further values of the same key (quoted)
	Absent bool     `json:"absent,omitempty"`
	Raw    string   `json:"raw_query,omitempty"` // quoted; when set it replaces the generated query
	Param  string   `json:"param"`               // quoted bind parameter value
	Cookie string   `json:"cookie"`              // quoted cookie value for the round trip
	RawCk  string   `json:"raw_cookie,omitempty"`
	DefS   string   `json:"def_s"`
	DefI   int64    `json:"def_i"`
	DefB   bool     `json:"def_b"`
	DefF   float64  `json:"def_f"`
	Double bool     `json:"double_encoded,omitempty"` // V is sent double-encoded (for QueryUnescape)
	// Form: the request is a POST with a urlencoded body that carries other
	// values under the same key, and a middleware calls ParseForm first; the
	// Query accessors speak about the URL query only.
	Form bool `json:"form_body,omitempty"`
	// EncKey: the key is spelled percent-encoded on the wire ("%6B" for "k").
	EncKey bool `json:"encoded_key,omitempty"`
	// Junk: malformed pairs under other keys next to the pair under test
	// (before it when JunkFirst): they are nobody's value, "k" is still present.
	Junk      []string `json:"junk_pairs,omitempty"`
	JunkFirst bool     `json:"junk_first,omitempty"`
	// Leak: before the request under test, another request to the same route
	// ("/static/{page}": a route with a bind, whose parameter map is the
	// request's own by necessity) wrote this key into its own Params(); the one
	// under test reads it.
	Leak bool `json:"params_written_by_earlier_request,omitempty"`
	// CaseSibling: in front of the cookies under test the request carries
	// cookies whose names differ from theirs in letter case only ("CK", "Nosuch");
	// cookie names are case-sensitive, so these are other cookies.
	CaseSibling bool `json:"cookie_names_in_other_case,omitempty"`
	// Rewritten: the request arrives with another query ("k=stale&k=old&gone=1");
	// a middleware in front of every accessor call puts the query under test in
	// its place (URL.RawQuery assigned, as a normalising middleware does): the
	// handler's reads are about the query that is there when it first asks.
	Rewritten bool `json:"query_rewritten_by_middleware,omitempty"`
	// Longer: SetCookie is first called for a cookie whose name starts with the
	// name of the cookie under test ("ck_sig"), then for "ck": both come back.
	Longer bool `json:"cookie_with_a_longer_name_first,omitempty"`
	// Lines: the client sends its cookies on several Cookie header lines, one
	// cookie per line (what HTTP/2 clients do), another cookie's line first.
	Lines bool `json:"cookies_on_several_header_lines,omitempty"`
	// RawEq: '=' inside the values is sent as it is ("k=YWI=": everything behind
	// the first '=' of a pair is the value).
	RawEq bool `json:"equal_signs_in_values_sent_raw,omitempty"`
}

var junkPairs = []string{"junk=%zz", "%=1", "a=%", "x;y=1", "=", "", "%zz", "b=%4", "c=1;d=2", "e=%%", "=%",
	// other keys that look like the key under test: they are other keys
	"k[]=7", "k%5B%5D=8", "k[0]=9", "K=10", "k.x=11", "kk=12", "k%20=13", "%20k=14", "k[]=15&k[]=16", "k_=17", "k-=18"}

func unq(s string) string {
	if s == "" {
		return ""
	}
	u, err := strconv.Unquote(s)
	if err != nil {
		panic("harness: bad quoted string " + s)
	}
	return u
}

// enc percent-encodes everything except unreserved characters.
func enc(s string) string {
	var b strings.Builder
	for i := 0; i < len(s); i++ {
		c := s[i]
		if c >= 'a' && c <= 'z' || c >= 'A' && c <= 'Z' || c >= '0' && c <= '9' || c == '-' || c == '_' || c == '.' || c == '~' {
			b.WriteByte(c)
		} else {
			fmt.Fprintf(&b, "%%%02X", c)
		}
	}
	return b.String()
}

var intRe = regexp.MustCompile(`^[+-]?[0-9]+$`)

// wantInt evaluates the integer rule: (value, specified).
func wantInt(s string, bits int) (int64, bool) {
	if !intRe.MatchString(s) {
		return 0, true
	}
	n, _ := new(big.Int).SetString(s, 10)
	min := new(big.Int).Lsh(big.NewInt(-1), uint(bits-1))
	max := new(big.Int).Sub(new(big.Int).Lsh(big.NewInt(1), uint(bits-1)), big.NewInt(1))
	if n.Cmp(min) < 0 || n.Cmp(max) > 0 {
		return 0, false // out of range: unspecified
	}
	return n.Int64(), true
}

func wantBool(s string) bool {
	switch s {
	case "1", "t", "T", "TRUE", "true", "True":
		return true
	}
	return false
}

// floatLiteral classifies s: "exact" with its value when the harness produced
// it from a float64, "garbage" when it is certainly not a float literal,
// "unknown" otherwise.
func floatClass(s string) string {
	if s == "" {
		return "empty"
	}
	if _, err := strconv.ParseFloat(s, 64); err == nil {
		return "literal"
	}
	for i := 0; i < len(s); i++ {
		c := s[i]
		if c >= '0' && c <= '9' {
			return "unknown"
		}
	}
	return "garbage"
}

type seen struct {
	q, qd, trim, trimd, un, und string
	strs, strsd                 []string
	b, bd                       bool
	i, id                       int
	i64, i64d                   int64
	f, fd                       float64
	param                       string
	pi                          int
	pi64                        int64
	cookie, rawCookie, missing  string
	cookie2, longer             string
	q2                          string
	strs2                       []string
}

func checkCase(c Case) (out evid.Outcome) {
	v, param, ck := unq(c.V), unq(c.Param), unq(c.Cookie)
	f := flamego.NewWithLogger(io.Discard)
	var s seen
	ran := false
	var setCookieHeader string
	var setCookieLines []string
	f.Get("/set", func(ctx flamego.Context) {
		if c.Longer {
			ctx.SetCookie(http.Cookie{Name: "ck_sig", Value: "sig-of-ck", Path: "/"})
		}
		ctx.SetCookie(http.Cookie{Name: "ck", Value: ck, Path: "/"})
		setCookieLines = ctx.ResponseWriter().Header().Values("Set-Cookie")
		for _, l := range setCookieLines {
			if strings.HasPrefix(l, "ck=") {
				setCookieHeader = l
			}
		}
	})
	var realQuery string
	f.Use(func(ctx flamego.Context) {
		if c.Form {
			_ = ctx.Request().ParseForm()
		}
		if c.Rewritten && !c.Form && ctx.Request().URL.Path != "/set" {
			// (the middleware looks at the query itself, not through the accessors:
			// an implementation may parse the query once per request when an
			// accessor first asks for it)
			_ = ctx.Request().URL.Query().Get("k")
			ctx.Request().URL.RawQuery = realQuery
		}
	})
	f.Routes("/q/{v}", "GET,POST", func(ctx flamego.Context) {
		ran = true
		s.q, s.qd = ctx.Query("k"), ctx.Query("k", c.DefS)
		s.trim, s.trimd = ctx.QueryTrim("k"), ctx.QueryTrim("k", c.DefS)
		s.un, s.und = ctx.QueryUnescape("k"), ctx.QueryUnescape("k", c.DefS)
		s.strs, s.strsd = ctx.QueryStrings("k"), ctx.QueryStrings("k", []string{c.DefS, "second"})
		s.b, s.bd = ctx.QueryBool("k"), ctx.QueryBool("k", c.DefB)
		s.i, s.id = ctx.QueryInt("k"), ctx.QueryInt("k", int(c.DefI))
		s.i64, s.i64d = ctx.QueryInt64("k"), ctx.QueryInt64("k", c.DefI)
		s.f, s.fd = ctx.QueryFloat64("k"), ctx.QueryFloat64("k", c.DefF)
		s.param, s.pi, s.pi64 = ctx.Param("v"), ctx.ParamInt("v"), ctx.ParamInt64("v")
		s.cookie, s.rawCookie, s.missing = ctx.Cookie("ck"), ctx.Cookie("raw"), ctx.Cookie("nosuch")
		s.cookie2 = ctx.Cookie("ck") // reading is repeatable
		s.longer = ctx.Cookie("ck_sig")
		// so is reading the query, whatever the caller did with a returned list
		// (the returned list is not written to: who owns it is not said)
		s.q2, s.strs2 = ctx.Query("k"), ctx.QueryStrings("k")
		s.strs = ctx.QueryStrings("k")
		_ = ctx.Params()
		_ = ctx.RemoteAddr()
	})

	var leaked string
	var leakedInt int
	f.Get("/static/{page}", func(ctx flamego.Context) {
		if ctx.Request().Header.Get("X-Write") != "" {
			ctx.Params()["note"] = "41"
			return
		}
		leaked, leakedInt = ctx.Param("note"), ctx.ParamInt("note")
	})

	// 1. write the cookie
	var escaped interface{}
	func() {
		defer func() { escaped = recover() }()
		f.ServeHTTP(rt.NewSpy(), rt.NewRequest("GET", "/set", nil))
	}()
	if escaped != nil {
		return evid.Fail("panic-setcookie", "SetCookie panicked for value %s: %v", c.Cookie, escaped)
	}
	pair := setCookieHeader
	if i := strings.Index(pair, ";"); i >= 0 {
		pair = pair[:i]
	}

	// 2. the request under test
	raw := c.Raw != ""
	query := ""
	if raw {
		query = unq(c.Raw)
	} else if !c.Absent {
		first := enc(v)
		if c.Double {
			first = enc(enc(v))
		}
		key := "k"
		if c.EncKey {
			key = "%6B"
		}
		eq := func(s string) string {
			if c.RawEq {
				return strings.ReplaceAll(s, "%3D", "=")
			}
			return s
		}
		parts := []string{"other=1", key + "=" + eq(first)}
		for _, m := range c.More {
			parts = append(parts, key+"="+eq(enc(unq(m))))
		}
		if c.JunkFirst {
			parts = append(append([]string{}, c.Junk...), parts...)
		} else {
			parts = append(parts, c.Junk...)
		}
		query = strings.Join(parts, "&")
	}
	h := http.Header{}
	cookieHeader := pair
	if c.Longer {
		// a client sends back every cookie it was given
		for _, l := range setCookieLines {
			if nv := strings.SplitN(l, ";", 2)[0]; !strings.HasPrefix(nv, "ck=") {
				cookieHeader = nv + "; " + cookieHeader
			}
		}
	}
	if c.CaseSibling {
		cookieHeader = "CK=other-cookie; Nosuch=not-that-one; " + cookieHeader
	}
	if c.RawCk != "" {
		cookieHeader += "; raw=" + unq(c.RawCk)
	}
	h.Set("Cookie", cookieHeader)
	if c.Lines {
		h.Del("Cookie")
		h.Add("Cookie", "session=first-line")
		for _, one := range strings.Split(cookieHeader, "; ") {
			h.Add("Cookie", one)
		}
	}
	seg := enc(param)
	req := rt.NewRequest("GET", "/q/"+seg, h)
	if c.Form {
		req.Method = "POST"
		h.Set("Content-Type", "application/x-www-form-urlencoded")
		req.Body = io.NopCloser(strings.NewReader("k=from-body&k=2&other=body&onlybody=1"))
	}
	req.URL.RawQuery = query
	if c.Rewritten && !c.Form {
		realQuery = query
		req.URL.RawQuery = "k=stale&k=old&gone=1"
	}
	func() {
		defer func() { escaped = recover() }()
		f.ServeHTTP(rt.NewSpy(), req)
	}()
	desc := js(c)
	if escaped != nil {
		return evid.Fail("panic", "an accessor panicked: %v; %s", escaped, desc)
	}

	if c.Leak {
		wh := http.Header{}
		wh.Set("X-Write", "1")
		f.ServeHTTP(rt.NewSpy(), rt.NewRequest("GET", "/static/page", wh))
		f.ServeHTTP(rt.NewSpy(), rt.NewRequest("GET", "/static/page", nil))
		if leaked != "" || leakedInt != 0 {
			return evid.Fail("param-absent", "a bind parameter that this request does not have reads %q / %d: an earlier request to the same route had written it into its own Params(); %s", leaked, leakedInt, desc)
		}
	}

	// ---- classification
	nt := false
	for _, f := range []struct {
		name string
		on   bool
	}{{"query-rewritten-by-middleware", c.Rewritten && !c.Form}, {"cookie-with-a-longer-name-first", c.Longer}, {"equal-signs-sent-raw", c.RawEq}, {"cookie-names-in-other-case", c.CaseSibling}, {"cookies-on-several-header-lines", c.Lines}} {
		if f.on {
			out.Classes = append(out.Classes, f.name)
		}
	}
	hostile := func(x string) bool {
		for i := 0; i < len(x); i++ {
			b := x[i]
			if b < 0x20 || b >= 0x7f || strings.IndexByte(";,=&%+ \"\\", b) >= 0 {
				return true
			}
		}
		return false
	}
	if hostile(v) || hostile(ck) || hostile(param) {
		nt = true
		out.Classes = append(out.Classes, "hostile-bytes")
	}
	if raw || c.RawCk != "" {
		nt = true
		out.Classes = append(out.Classes, "raw-query-or-cookie")
	}
	if c.Form {
		nt = true
		out.Classes = append(out.Classes, "post-with-parsed-form")
	}
	if len(c.Junk) > 0 && !raw && !c.Absent {
		nt = true
		out.Classes = append(out.Classes, "malformed-sibling-pairs")
	}

	// ---- cookie round trip (independent of the query part)
	if ran && s.cookie != ck {
		return evid.Fail("cookie-roundtrip", "SetCookie(%q) produced %q; sent back, Cookie() returns %q", ck, setCookieHeader, s.cookie)
	}
	if ran && c.Longer && s.longer != "sig-of-ck" {
		return evid.Fail("cookie-roundtrip", "SetCookie(ck_sig) then SetCookie(ck): the response carries %q; sent back, Cookie(\"ck_sig\") returns %q", setCookieLines, s.longer)
	}
	if ran && s.cookie2 != ck {
		return evid.Fail("cookie-second-read", "SetCookie(%q): the first Cookie() returns %q, a second read in the same request returns %q", ck, s.cookie, s.cookie2)
	}
	if ran && c.RawCk != "" {
		// a raw value made of plain cookie octets is present: it is returned,
		// decoded when it can be and raw when it cannot
		rawv := unq(c.RawCk)
		safe := true
		for i := 0; i < len(rawv); i++ {
			b := rawv[i]
			if b <= 0x20 || b >= 0x7f || b == '"' || b == ';' || b == ',' || b == '\\' {
				safe = false
			}
		}
		if safe {
			// a cookie that SetCookie did not produce: it is present, so it is
			// returned - as it stands or decoded with the codec cookies are read with
			// (which codec that is only shows in the round trip above)
			want, ok := queryDecode(rawv)
			if s.rawCookie != rawv && !(ok && s.rawCookie == want) && s.rawCookie != model.Decode1(rawv) {
				return evid.Fail("cookie-raw", "Cookie header value %q is read as %q, want it as it stands or decoded (%q)", rawv, s.rawCookie, want)
			}
		}
	}
	if ran && s.missing != "" {
		return evid.Fail("cookie-missing", "Cookie of an absent name returns %q (cookie header %q)", s.missing, cookieHeader)
	}
	if c.CaseSibling {
		out.Classes = append(out.Classes, "cookie-names-differing-in-case")
	}
	if !ran {
		if seg == "" {
			// "/q/" has an empty last segment: the placeholder still admits it
			return evid.Fail("not-dispatched", "request /q/%s was not dispatched", seg)
		}
		return evid.Fail("not-dispatched", "request /q/%s was not dispatched; %s", seg, desc)
	}

	// ---- bind parameter
	if s.param != param {
		return evid.Fail("param", "Param = %q, sent %q (as %q)", s.param, param, seg)
	}
	if wi, ok := wantInt(param, strconv.IntSize); ok && int64(s.pi) != wi {
		return evid.Fail("param-int", "ParamInt(%q) = %d, want %d", param, s.pi, wi)
	}
	if wi, ok := wantInt(param, 64); ok && s.pi64 != wi {
		return evid.Fail("param-int64", "ParamInt64(%q) = %d, want %d", param, s.pi64, wi)
	}

	if s.q2 != s.q || fmt.Sprintf("%q", s.strs2) != fmt.Sprintf("%q", s.strs) || (len(s.strs2) > 0 && s.strs2[0] == "overwritten-by-caller") {
		return evid.Fail("query-aliasing", "after the caller overwrote the list returned by QueryStrings, Query = %q (before %q) and QueryStrings = %q; %s", s.q2, s.q, s.strs2, desc)
	}
	if raw {
		// totality and internal consistency only
		if len(s.strs) > 0 && s.q != s.strs[0] {
			return evid.Fail("raw-consistency", "raw query %q: Query = %q but QueryStrings = %q", query, s.q, s.strs)
		}
		if s.trim != strings.TrimSpace(s.q) {
			return evid.Fail("raw-trim", "raw query %q: QueryTrim = %q, Query = %q", query, s.trim, s.q)
		}
		out.NonTrivial = nt
		return out
	}

	// ---- value-first query
	sent := v
	if c.Double {
		sent = enc(v)
	}
	present := !c.Absent && sent != ""
	wantQ, wantQD := "", c.DefS
	if present {
		wantQ, wantQD = sent, sent
	}
	if s.q != wantQ || s.qd != wantQD {
		return evid.Fail("query", "Query = %q / with default %q; want %q / %q; %s", s.q, s.qd, wantQ, wantQD, desc)
	}
	// a present value is returned trimmed / unescaped; an absent or empty one
	// yields the caller's default as it is (the default is not a query value)
	wantTrim, wantTrimD := "", c.DefS
	if present {
		wantTrim, wantTrimD = strings.TrimSpace(sent), strings.TrimSpace(sent)
	}
	if present && strings.TrimSpace(sent) == "" && s.trim == "" && (s.trimd == "" || s.trimd == c.DefS) {
		// a value of blanks only: "present, returned trimmed" (empty) and "empty
		// after trimming, so the default" are both readings of the rule
	} else if s.trim != wantTrim || s.trimd != wantTrimD {
		return evid.Fail("query-trim", "QueryTrim = %q / with default(%q) %q; want %q / %q; %s", s.trim, c.DefS, s.trimd, wantTrim, wantTrimD, desc)
	}
	if !present {
		if s.un != "" || s.und != c.DefS {
			return evid.Fail("query-unescape-default", "QueryUnescape of an absent or empty value = %q / with default(%q) %q; want \"\" / the default; %s", s.un, c.DefS, s.und, desc)
		}
	} else {
		if s.un != s.und {
			return evid.Fail("query-unescape", "QueryUnescape of a present value = %q without and %q with a default; %s", s.un, s.und, desc)
		}
		if dec, ok := queryDecode(sent); ok && s.un != dec {
			return evid.Fail("query-unescape", "QueryUnescape = %q, want %q (the value %q unescaped once more); %s", s.un, dec, sent, desc)
		}
		if c.Double {
			nt = true
			out.Classes = append(out.Classes, "double-encoded")
		}
	}
	// lists
	if c.Absent {
		if len(s.strs) != 0 || fmt.Sprint(s.strsd) != fmt.Sprint([]string{c.DefS, "second"}) {
			return evid.Fail("query-strings-absent", "QueryStrings of an absent key = %q / %q", s.strs, s.strsd)
		}
	} else {
		want := []string{sent}
		for _, m := range c.More {
			want = append(want, unq(m))
		}
		okStrs := fmt.Sprintf("%q", s.strs) == fmt.Sprintf("%q", want)
		okStrsD := fmt.Sprintf("%q", s.strsd) == fmt.Sprintf("%q", want)
		if len(want) == 1 && want[0] == "" {
			// "k=": the key is there, its only value is empty - the list [""] (what
			// the repository's suite shows) and "empty yields the default" (the
			// statement read literally) are both accepted
			okStrs = okStrs || len(s.strs) == 0
			okStrsD = okStrsD || fmt.Sprint(s.strsd) == fmt.Sprint([]string{c.DefS, "second"})
		}
		if !okStrs || !okStrsD {
			return evid.Fail("query-strings", "QueryStrings = %q / %q, want %q; %s", s.strs, s.strsd, want, desc)
		}
	}
	// bool
	wb, wbd := false, c.DefB
	if present {
		wb, wbd = wantBool(sent), wantBool(sent)
	}
	if s.b != wb || s.bd != wbd {
		return evid.Fail("query-bool", "QueryBool = %v / with default(%v) %v; want %v / %v; %s", s.b, c.DefB, s.bd, wb, wbd, desc)
	}
	// ints
	if present {
		if wi, ok := wantInt(sent, strconv.IntSize); ok {
			if int64(s.i) != wi || int64(s.id) != wi {
				return evid.Fail("query-int", "QueryInt(%q) = %d / with default(%d) %d; want %d both times; %s", sent, s.i, c.DefI, s.id, wi, desc)
			}
			if !intRe.MatchString(sent) {
				nt = true
				out.Classes = append(out.Classes, "malformed-int-with-default")
			}
		} else {
			nt = true
			out.Classes = append(out.Classes, "int-out-of-range")
		}
		if wi, ok := wantInt(sent, 64); ok {
			if s.i64 != wi || s.i64d != wi {
				return evid.Fail("query-int64", "QueryInt64(%q) = %d / with default(%d) %d; want %d both times; %s", sent, s.i64, c.DefI, s.i64d, wi, desc)
			}
		}
	} else {
		if s.i != 0 || int64(s.id) != int64(int(c.DefI)) || s.i64 != 0 || s.i64d != c.DefI {
			return evid.Fail("query-int-default", "absent/empty: QueryInt = %d / %d, QueryInt64 = %d / %d; want 0 / %d; %s", s.i, s.id, s.i64, s.i64d, c.DefI, desc)
		}
	}
	// floats
	if present {
		switch floatClass(sent) {
		case "literal":
			wf, _ := strconv.ParseFloat(sent, 64)
			if !sameFloat(s.f, wf) || !sameFloat(s.fd, wf) {
				return evid.Fail("query-float", "QueryFloat64(%q) = %v / %v, want %v; %s", sent, s.f, s.fd, wf, desc)
			}
		case "garbage":
			if s.f != 0 || s.fd != 0 {
				return evid.Fail("query-float-garbage", "QueryFloat64(%q) = %v / with default(%v) %v, want 0 for malformed text; %s", sent, s.f, c.DefF, s.fd, desc)
			}
		}
	} else if s.f != 0 || !sameFloat(s.fd, c.DefF) {
		return evid.Fail("query-float-default", "absent/empty: QueryFloat64 = %v / %v, want 0 / %v; %s", s.f, s.fd, c.DefF, desc)
	}
	if !present {
		out.Classes = append(out.Classes, "absent-or-empty")
	}
	out.NonTrivial = nt
	return out
}

// queryDecode is the harness' own form decoding: '+' is a blank, %XX a byte.
func queryDecode(x string) (string, bool) {
	var b strings.Builder
	for i := 0; i < len(x); i++ {
		switch x[i] {
		case '+':
			b.WriteByte(' ')
		case '%':
			if i+2 >= len(x) {
				return "", false
			}
			n, err := strconv.ParseUint(x[i+1:i+3], 16, 8)
			if err != nil {
				return "", false
			}
			b.WriteByte(byte(n))
			i += 2
		default:
			b.WriteByte(x[i])
		}
	}
	return b.String(), true
}

func sameFloat(a, b float64) bool {
	if math.IsNaN(a) || math.IsNaN(b) {
		return math.IsNaN(a) && math.IsNaN(b)
	}
	return a == b
}

func js(v interface{}) string {
	b, _ := json.Marshal(v)
	return string(b)
}

// ---- generator -----------------------------------------------------------------------

func genValue(t *rapid.T) string {
	switch rapid.IntRange(0, 11).Draw(t, "vk") {
	case 0:
		return ""
	case 1:
		return string(rapid.SliceOfN(rapid.Byte(), 1, 16).Draw(t, "bytes"))
	case 2:
		if rapid.IntRange(0, 3).Draw(t, "b64") == 0 {
			return []string{"YWI=", "YQ==", "a=b", "=", "=x", "x==y=", "1=1", "100%25", "a%2Fb", "%E4%B8%AD%E5%9B%BD", "%3D%26", "a+b%2B", "%25"}[rapid.IntRange(0, 12).Draw(t, "eqv")]
		}
		return rapid.StringMatching(`[a-z;,=&%+ "\\/?#]{1,10}`).Draw(t, "sep")
	case 3:
		return strconv.FormatInt(rapid.Int64().Draw(t, "i64"), 10)
	case 4:
		return []string{"9223372036854775807", "9223372036854775808", "-9223372036854775808", "-9223372036854775809", "99999999999999999999", "+7", "-0", "007", "2147483648", "010", "0123", "00000000000000000099", "0x10", "0X1f", "0b101", "0o17", "1_000", "0_7", "-010", "+0x1"}[rapid.IntRange(0, 19).Draw(t, "edge")]
	case 5:
		return []string{"1", "t", "T", "TRUE", "true", "True", "0", "f", "F", "FALSE", "false", "False", "yes", "on", "tRUE", " true"}[rapid.IntRange(0, 15).Draw(t, "bool")]
	case 6:
		return strconv.FormatFloat(rapid.Float64().Draw(t, "f"), 'g', -1, 64)
	case 7:
		return []string{"1e400", "-1e400", "NaN", "inf", "-Inf", "0x1p-2", "1_000", ".5", "5.", "1e", "--1", "1.2.3"}[rapid.IntRange(0, 11).Draw(t, "fedge")]
	case 8:
		return rapid.StringMatching(`[g-hj-mo-su-wyz!@# ]{1,8}`).Draw(t, "garbage")
	case 9:
		return " " + strconv.Itoa(rapid.IntRange(-50, 50).Draw(t, "n")) + "\t"
	case 10:
		return rapid.StringMatching(`[\x{80}-\x{2000}]{1,4}`).Draw(t, "uni")
	default:
		return rapid.StringMatching(`[0-9]{1,4}[a-z%]{0,3}`).Draw(t, "mixed")
	}
}

func genCase(t *rapid.T) Case {
	c := Case{
		V:      strconv.QuoteToASCII(gen.Big(t, genValue(t))),
		Param:  strconv.QuoteToASCII(genValue(t)),
		Cookie: strconv.QuoteToASCII(gen.Big(t, genValue(t))),
		DefS:   []string{"", "dflt", " pad ", "d%41", "a+b", "%zz"}[rapid.IntRange(0, 5).Draw(t, "defs")],
		DefI:   []int64{0, 1, -7, 42}[rapid.IntRange(0, 3).Draw(t, "defi")],
		DefB:   rapid.Bool().Draw(t, "defb"),
		DefF:   []float64{0, 1.5, -2}[rapid.IntRange(0, 2).Draw(t, "deff")],
	}
	if unq(c.Param) == "" {
		c.Param = strconv.Quote("p")
	}
	switch rapid.IntRange(0, 9).Draw(t, "mode") {
	case 0:
		c.Absent = true
	case 1:
		c.Double = true
	case 2:
		for i, n := 0, rapid.IntRange(1, 2).Draw(t, "nmore"); i < n; i++ {
			c.More = append(c.More, strconv.QuoteToASCII(genValue(t)))
		}
	case 3:
		raw := []string{"k", "k=", "=v", "k=%zz", "k=1;k=2", "&&", "k=%", "%=%", "k=a&k", "\x00=\xff", "k=+&k=%2B", "?k=1"}[rapid.IntRange(0, 11).Draw(t, "rawk")]
		if rapid.Bool().Draw(t, "rawbytes") {
			raw = string(rapid.SliceOfN(rapid.Byte(), 1, 24).Draw(t, "rawq"))
		}
		c.Raw = strconv.QuoteToASCII(raw)
	}
	c.Form = rapid.IntRange(0, 3).Draw(t, "form") == 0
	c.EncKey = rapid.IntRange(0, 3).Draw(t, "enckey") == 0
	if rapid.IntRange(0, 3).Draw(t, "junk") == 0 {
		for i, n := 0, rapid.IntRange(1, 3).Draw(t, "njunk"); i < n; i++ {
			c.Junk = append(c.Junk, junkPairs[rapid.IntRange(0, len(junkPairs)-1).Draw(t, "jp")])
		}
		c.JunkFirst = rapid.Bool().Draw(t, "junkfirst")
	}
	c.Leak = rapid.IntRange(0, 4).Draw(t, "leak") == 0
	c.CaseSibling = rapid.IntRange(0, 3).Draw(t, "casesibling") == 0
	c.Rewritten = !c.Form && rapid.IntRange(0, 4).Draw(t, "rewritten") == 0
	c.Longer = rapid.IntRange(0, 3).Draw(t, "longer") == 0
	c.Lines = rapid.IntRange(0, 3).Draw(t, "cookielines") == 0
	c.RawEq = rapid.IntRange(0, 2).Draw(t, "raweq") == 0
	if rapid.IntRange(0, 4).Draw(t, "rawck") == 0 {
		c.RawCk = strconv.QuoteToASCII([]string{"%zz", "a b", "\"q\"", "x;y", "a=b", "%41", "\xff", "", "a+b%20c", "%4", "100%"}[rapid.IntRange(0, 10).Draw(t, "rck")])
		if unq(c.RawCk) == "" {
			c.RawCk = ""
		}
	}
	return c
}

func TestProp(t *testing.T) {
	evid.Rapid(t, "accessors", 5000, 300000, func(t *rapid.T) {
		c := genCase(t)
		evid.Run(t, "accessors", c, func() evid.Outcome { return checkCase(c) })
	})
}

func TestReplay(t *testing.T) {
	evid.Replay(t, map[string]evid.ReplayFn{
		"accessors": func(raw json.RawMessage) evid.Outcome {
			var c Case
			if err := json.Unmarshal(raw, &c); err != nil {
				panic(err)
			}
			return checkCase(c)
		},
	})
}
