// Package c09 decides property C09: header constraints gate a route in every
// form it can be reached, a gated route is invisible, and constraints given
// again replace the previous set.
package c09

import (
	"encoding/json"
	"io"
	"net/http"
	"net/http/httptest"
	"regexp"
	"strings"
	"testing"

	"pgregory.net/rapid"

	"github.com/flamego/flamego"
	"github.com/flamego/flamego/verifharness/internal/evid"
	"github.com/flamego/flamego/verifharness/internal/gen"
	"github.com/flamego/flamego/verifharness/internal/model"
	"github.com/flamego/flamego/verifharness/internal/rt"
)

const rule = "case = a valid route set in which a random subset of routes gets Headers(...) 1..3 times with 0..2 pairs each (the last call is the truth), routes registered through Get / Route / Routes(\"GET,POST\") / Routes(\"get, Post\") / Routes(path, \"GET\", \"POST\") / Any / Get while AutoHead is on (GET and HEAD) / Routes(\"GET,POST\") while AutoHead is on (whether HEAD is answered is open; if it is, under the same constraints), incl. fully static and optional routes; requests built from route instances (both forms, every method) with random header sets (absent, empty, matching, non-matching, 4..9 KB long with a verdict that hinges on the last byte, the spelling of an expression as the value, other case of the name in the constraint, repeated fields whose values agree on the verdict under every reading, pairs of requests that cut one list (comma-separated, or one string without any separator) differently between two constrained headers, requests without a header map); optionally Headers() calls after all requests have been served once, and everything again. " +
	"Oracle: reference matcher with the gate 'every constrained header has a non-empty value matched by its expression' applied to both forms and all methods of the route; the handler that ran (or not-found) must be the reference winner. " +
	"non-trivial = a case with a request whose path is admitted by a constrained route whose constraints fail (so another route or not-found must take it), or that reaches a constrained route through its short form, a non-first method or a fully static path; distinct by case text"

var assumptions = []string{
	"header lookup follows net/http: names are case-insensitive; a header field sent several times is only generated where the first value, the last, any of them and the joined list all give the same verdict",
	"Headers() is called with balanced pairs and compiling expressions (anything else panics by contract)",
}

func TestMain(m *testing.M) { evid.Main(m, "C09", rule, assumptions) }

type HReg struct {
	Via     string     `json:"via"` // get | route:<M> | routes-list | routes-args | any
	R       string     `json:"route"`
	Headers [][]string `json:"headers,omitempty"` // successive Headers() calls
}

func (h HReg) methods() []string {
	switch {
	case h.Via == "get":
		return []string{"GET"}
	case h.Via == "autohead-get", h.Via == "autohead-get-again":
		return []string{"GET", "HEAD"}
	case strings.HasPrefix(h.Via, "route:"):
		return model.ExpandMethod(strings.TrimPrefix(h.Via, "route:"))
	case h.Via == "routes-list", h.Via == "routes-args", h.Via == "routes-lower", h.Via == "autohead-routes":
		return []string{"GET", "POST"}
	case h.Via == "any":
		return model.Methods
	}
	panic("harness: via " + h.Via)
}

// reqMethods are the methods requests are made with (and that the route
// occupies for the purposes of validity): Routes("GET,POST") while AutoHead is
// on may or may not answer HEAD as well - if it does, under the same constraints.
func (h HReg) reqMethods() []string {
	if h.Via == "autohead-routes" {
		return append(h.methods(), "HEAD")
	}
	return h.methods()
}

type Case struct {
	Regs []HReg   `json:"routes"`
	Reqs []rt.Req `json:"requests"`
	// Late are Headers() calls made after all requests have been served once;
	// the requests are then served again.
	Late []LateHeaders `json:"headers_after_serving,omitempty"`
	// CutPairs: the requests hold pairs that cut one comma list differently
	// between two constrained headers (for the class table only).
	CutPairs bool `json:"comma_list_cut_differently,omitempty"`
}

type LateHeaders struct {
	I int      `json:"route"`
	H []string `json:"pairs"`
}

func compile(c Case, method string, headTwins bool) []model.MRoute {
	var out []model.MRoute
	for i, g := range c.Regs {
		on := false
		ms := g.methods()
		if headTwins {
			ms = g.reqMethods()
		}
		for _, m := range ms {
			if m == method {
				on = true
			}
		}
		if !on {
			continue
		}
		mr, err := model.Compile(rt.Deriv(g.R), i)
		if err != nil {
			panic(err)
		}
		if n := len(g.Headers); n > 0 {
			last := g.Headers[n-1]
			mr.Headers = map[string]*regexp.Regexp{}
			for j := 1; j < len(last); j += 2 {
				mr.Headers[last[j-1]] = regexp.MustCompile(last[j])
			}
		}
		out = append(out, mr)
	}
	return out
}

func checkCase(c Case) (out evid.Outcome) {
	out.Sub = len(c.Reqs)
	c.Regs = append([]HReg(nil), c.Regs...) // the second pass edits its copy
	f := flamego.NewWithLogger(io.Discard)
	ran := -1
	notFound := false
	f.NotFound(func(ctx flamego.Context) { notFound = true; ctx.ResponseWriter().WriteHeader(404) })
	handles := make([]*flamego.Route, len(c.Regs))
	cur, declared := -1, -1
	regErr := func() (err interface{}) {
		defer func() { err = recover() }()
		for i, g := range c.Regs {
			i := i
			cur = i
			h := func(ctx flamego.Context) { ran = i; ctx.ResponseWriter().WriteHeader(200) }
			var r *flamego.Route
			switch {
			case g.Via == "get":
				r = f.Get(g.R, h)
			case g.Via == "autohead-get":
				// Get while AutoHead is on registers the route for HEAD too: the
				// constraints are the route's, whatever the method
				f.AutoHead(true)
				r = f.Get(g.R, h)
				f.AutoHead(false)
			case g.Via == "autohead-get-again":
				// switching on what is on already changes nothing
				f.AutoHead(true)
				f.AutoHead(true)
				r = f.Get(g.R, h)
				f.AutoHead(false)
			case strings.HasPrefix(g.Via, "route:"):
				r = f.Route(strings.TrimPrefix(g.Via, "route:"), g.R, []flamego.Handler{h})
			case g.Via == "routes-list":
				r = f.Routes(g.R, "GET,POST", h)
			case g.Via == "autohead-routes":
				f.AutoHead(true)
				r = f.Routes(g.R, "GET,POST", h)
				f.AutoHead(false)
			case g.Via == "routes-args":
				r = f.Routes(g.R, "GET", "POST", h)
			case g.Via == "routes-lower":
				r = f.Routes(g.R, "get, Post", h)
			case g.Via == "any":
				r = f.Any(g.R, h)
			}
			declared = i // (the route itself has been taken: a panic from here on is not about its method)
			for _, hs := range g.Headers {
				r.Headers(hs...)
			}
			handles[i] = r
		}
		return nil
	}()
	if regErr != nil && cur >= 0 && declared < cur && (c.Regs[cur].Via == "routes-lower" || c.Regs[cur].Via == "route:get") {
		// a method name in another spelling than the standard upper-case one: that
		// the router takes it is not part of any statement
		out.Excluded = out.Sub
		out.Classes = append(out.Classes, "method-spelling-refused")
		return out
	}
	if regErr != nil {
		// every route of a case is one the statement of C08 obliges the router to accept
		return evid.Fail("registration-panic", "registration panicked: %v; routes %s", regErr, js(c.Regs))
	}
	if c.CutPairs {
		out.Classes = append(out.Classes, "comma-list-cut-differently")
	}
	nogate := func(*model.MRoute, model.Form, http.Header) bool { return true }
	openHead := false
	for _, g := range c.Regs {
		if g.Via == "autohead-routes" {
			openHead = true
		}
	}
	for pass := 0; pass < 2; pass++ {
		if pass == 1 {
			// constraints given (again) after the application has been serving: the
			// last call is the truth from then on, for every way to reach the route
			if len(c.Late) == 0 {
				break
			}
			for _, l := range c.Late {
				handles[l.I].Headers(l.H...)
				c.Regs[l.I].Headers = append(append([][]string(nil), c.Regs[l.I].Headers...), l.H)
			}
			out.NonTrivial = true
			out.Classes = append(out.Classes, "constraints-changed-after-serving")
		}
		for _, g := range c.Regs {
			if len(g.Headers) > 1 {
				out.Classes = append(out.Classes, "headers-respecified")
				break
			}
		}
		compiled := map[string][]model.MRoute{}
		for _, q := range c.Reqs {
			routes, ok := compiled[q.M]
			if !ok {
				routes = compile(c, q.M, false)
				compiled[q.M] = routes
			}
			hdr := q.Header()
			want := model.Match(routes, q.P, hdr, nil)
			var alt *model.Result
			if q.M == "HEAD" && openHead {
				// Routes(...) under AutoHead: with or without a HEAD twin - but a twin
				// is the same route, under the same constraints
				r2 := model.Match(compile(c, q.M, true), q.P, hdr, nil)
				alt = &r2
			}
			ran, notFound = -1, false
			rec := httptest.NewRecorder()
			hreq := q.HTTP()
			hreq.Header = hdr
			if len(q.H) == 0 && len(q.P)%3 == 0 {
				// a request built by hand may have no header map at all: it carries
				// no value for any header
				hreq.Header = nil
				out.Classes = append(out.Classes, "nil-header-map")
			}
			f.ServeHTTP(rec, hreq)
			// classification
			ungated := model.Admitting(routes, q.P, hdr, nogate)
			gated := model.Admitting(routes, q.P, hdr, nil)
			if len(gated) < len(ungated) {
				out.NonTrivial = true
				out.Classes = append(out.Classes, "constraint-failed-on-admitting-route")
			}
			if want.Found && len(want.Route.Headers) > 0 {
				out.Classes = append(out.Classes, "constrained-route-won")
				d := rt.Deriv(c.Regs[want.Route.Index].R)
				static := true
				for _, s := range d.Segs {
					if k, _, _ := s.Classify(); k != model.KStatic {
						static = false
					}
				}
				if want.Form == model.Short {
					out.NonTrivial = true
					out.Classes = append(out.Classes, "via-short-form")
				}
				if static {
					out.NonTrivial = true
					out.Classes = append(out.Classes, "via-static-path")
				}
				if ms := c.Regs[want.Route.Index].methods(); len(ms) > 1 && q.M != ms[0] {
					out.NonTrivial = true
					out.Classes = append(out.Classes, "via-other-method")
				}
			}
			if alt != nil && (alt.Found != want.Found || (alt.Found && alt.Route.Index != want.Route.Index)) {
				out.NonTrivial = true
				out.Classes = append(out.Classes, "head-of-routes-under-autohead-open")
				if alt.Found == (ran >= 0) && (ran >= 0) != notFound && (!alt.Found || ran == alt.Route.Index) {
					continue
				}
			}
			if want.Found != (ran >= 0) || (ran >= 0) == notFound {
				wr := "-"
				if want.Found {
					wr = want.Route.Canon
				}
				return fail(out, sigOf(c, want, ran), "%s %q headers %v: reference winner %q (found=%v), ServeHTTP ran handler #%d, not-found ran=%v; routes %s",
					q.M, q.P, q.H, wr, want.Found, ran, notFound, show(c))
			}
			if want.Found && ran != want.Route.Index {
				return fail(out, sigOf(c, want, ran), "%s %q headers %v: served by #%d %q, reference winner is #%d %q; routes %s",
					q.M, q.P, q.H, ran, c.Regs[ran].R, want.Route.Index, want.Route.Canon, show(c))
			}
		}
	}
	return out
}

func sigOf(c Case, want model.Result, ran int) string {
	if ran >= 0 && len(c.Regs[ran].Headers) > 0 && (!want.Found || want.Route.Index != ran) {
		return "gate-bypassed"
	}
	return "wrong-outcome"
}

func fail(out evid.Outcome, sig, format string, args ...interface{}) evid.Outcome {
	o := evid.Fail(sig, format, args...)
	o.NonTrivial, o.Classes, o.Sub = out.NonTrivial, out.Classes, out.Sub
	return o
}

func show(c Case) string {
	var parts []string
	for _, g := range c.Regs {
		s := g.Via + " " + g.R
		for _, h := range g.Headers {
			s += " .Headers(" + strings.Join(h, ",") + ")"
		}
		parts = append(parts, s)
	}
	return "[" + strings.Join(parts, " ; ") + "]"
}

// ---- generator -----------------------------------------------------------------

var hdrNames = []string{"X-Api", "x-api", "Accept", "User-Agent", "X-B"}
var hdrExprs = []string{"", "^v1$", "Caddy", "[0-9]+", "^(a|b)$", "^[0-9a-f]+$", "(?i)^caddy", "a$", "^[a-z0-9/ ]*$", "/v1/"}
var hdrVals = []string{"v1", "v12", "Caddy/2", "x", "7", "a", "", "ab", "CADDY", "deadbeef", "7a", "V1", "A", "B", "caddy",
	// the spelling of an expression is a value like any other
	"^v1$", "[0-9]+", "^(a|b)$", "a$", "x^[0-9a-f]+$", "/v1/", "a/v1/b"}

// hdrValue draws a header value: mostly from the pool, sometimes a very long
// one (4..9 KB, beyond any buffer a matcher might use) whose verdict may hinge
// on its last byte.
func hdrValue(t *rapid.T) string {
	v := hdrVals[rapid.IntRange(0, len(hdrVals)-1).Draw(t, "hv")]
	if v == "" || rapid.IntRange(0, 11).Draw(t, "long") != 0 {
		return v
	}
	n := rapid.IntRange(4000, 9000).Draw(t, "longlen")
	return strings.Repeat(v, n/len(v)+1) + []string{"", "!", "a", "7", " "}[rapid.IntRange(0, 4).Draw(t, "tail")]
}

func genHeaders(t *rapid.T) []string {
	// 0 pairs is a legal call too: it replaces the previous set by the empty one
	n := rapid.IntRange(0, 2).Draw(t, "nh")
	out := []string{}
	seen := map[string]bool{}
	for i := 0; i < n; i++ {
		name := hdrNames[rapid.IntRange(0, len(hdrNames)-1).Draw(t, "hn")]
		if seen[http.CanonicalHeaderKey(name)] {
			continue
		}
		seen[http.CanonicalHeaderKey(name)] = true
		out = append(out, name, hdrExprs[rapid.IntRange(0, len(hdrExprs)-1).Draw(t, "he")])
	}
	return out
}

func genCase(t *rapid.T) Case {
	vias := []string{"get", "get", "route:POST", "routes-list", "routes-args", "routes-lower", "any", "route:*", "route:get", "autohead-get", "autohead-get-again", "autohead-routes"}
	pool := gen.SegPoolW(t, 5, false, [3]int{50, 70, 88})
	n := rapid.IntRange(1, 6).Draw(t, "nroutes")
	g := model.NewRegistrar()
	var c Case
	var regs []rt.Reg
	for i := 0; i < n; i++ {
		d := gen.Route(t, gen.RouteOpts{SegmentPool: pool, MaxSegs: 3})
		h := HReg{Via: vias[rapid.IntRange(0, len(vias)-1).Draw(t, "via")], R: d.Source()}
		ok := true
		for _, m := range h.reqMethods() {
			if v, _ := g.Check(m, d); v != model.MustAccept {
				ok = false
			}
		}
		if !ok {
			continue
		}
		for _, m := range h.reqMethods() {
			g.Add(m, d)
		}
		if rapid.IntRange(0, 9).Draw(t, "constrained") < 6 {
			k := rapid.IntRange(1, 3).Draw(t, "ncalls")
			for j := 0; j < k; j++ {
				h.Headers = append(h.Headers, genHeaders(t))
			}
		}
		c.Regs = append(c.Regs, h)
		for _, m := range h.reqMethods() {
			regs = append(regs, rt.Reg{M: m, R: h.R})
		}
	}
	reqs := gen.Requests(t, regs, 12)
	for i := range reqs {
		// header set: each known name absent / drawn value
		for _, name := range []string{"X-Api", "Accept", "User-Agent", "X-B"} {
			switch rapid.IntRange(0, 3).Draw(t, "hk") {
			case 0:
			case 1, 2:
				// (a request built by net/http carries canonical names only)
				reqs[i].H = append(reqs[i].H, [2]string{name, hdrValue(t)})
			default:
				reqs[i].H = append(reqs[i].H, [2]string{name, "v1"})
			}
		}
	}
	if len(c.Regs) > 0 && rapid.IntRange(0, 2).Draw(t, "late") == 0 {
		for i, n := 0, rapid.IntRange(1, 2).Draw(t, "nlate"); i < n; i++ {
			c.Late = append(c.Late, LateHeaders{I: rapid.IntRange(0, len(c.Regs)-1).Draw(t, "li"), H: genHeaders(t)})
		}
	}
	// two requests that differ only in where a comma-separated list is cut
	// between two constrained headers ("a,b" + "c" against "a" + "b,c"): each
	// header's own value decides, not what the values look like side by side
	cutPairs := false
	for ri, g := range c.Regs {
		if len(g.Headers) == 0 || rapid.IntRange(0, 1).Draw(t, "shift") != 0 {
			continue
		}
		last := g.Headers[len(g.Headers)-1]
		if len(last) < 4 {
			continue
		}
		pc := func(label string) string {
			return []string{"v1", "7", "a", "ab", "Caddy", "x", "12", "b"}[rapid.IntRange(0, 7).Draw(t, label)]
		}
		p1, p2, p3 := pc("p1"), pc("p2"), pc("p3")
		ms := g.reqMethods()
		m := ms[rapid.IntRange(0, len(ms)-1).Draw(t, "shiftm")]
		path := "/" + strings.Join(gen.Instance(t, rt.Deriv(c.Regs[ri].R), false), "/")
		// (cut at a comma, or - "712" + "a" against "7" + "12a" - anywhere: side by
		// side the two requests read the same)
		sep := []string{",", ",", "", "", " ", ";"}[rapid.IntRange(0, 5).Draw(t, "cutsep")]
		a := rt.Req{M: m, P: path, H: [][2]string{{last[0], p1 + sep + p2}, {last[2], p3}}}
		b := rt.Req{M: m, P: path, H: [][2]string{{last[0], p1}, {last[2], p2 + sep + p3}}}
		if sep == "" && rapid.Bool().Draw(t, "palindromic") {
			// values that read alike side by side in either order of the two headers
			x := []string{"7", "1", "a", "v1"}[rapid.IntRange(0, 3).Draw(t, "unit")]
			a.H, b.H = [][2]string{{last[0], x + x}, {last[2], x}}, [][2]string{{last[0], x}, {last[2], x + x}}
		}
		if rapid.Bool().Draw(t, "shiftorder") {
			a, b = b, a
		}
		reqs = append(reqs, a, b)
		cutPairs = true
	}
	// a constrained header may be repeated; only repetitions whose verdict does
	// not depend on which of the values counts - the first, the last, any, or
	// the comma-joined list - are generated, for every expression the case
	// ever installs on that header (the late ones included)
	var sets [][]string
	for _, g := range c.Regs {
		sets = append(sets, g.Headers...)
	}
	for _, l := range c.Late {
		sets = append(sets, l.H)
	}
	for i := range reqs {
		if rapid.IntRange(0, 3).Draw(t, "repeat") != 0 || len(reqs[i].H) == 0 {
			continue
		}
		j := rapid.IntRange(0, len(reqs[i].H)-1).Draw(t, "rj")
		name, v1 := reqs[i].H[j][0], reqs[i].H[j][1]
		v2 := hdrVals[rapid.IntRange(0, len(hdrVals)-1).Draw(t, "rv")]
		if v1 == "" || v2 == "" {
			continue
		}
		ok := true
		for _, set := range sets {
			for k := 1; k < len(set); k += 2 {
				if http.CanonicalHeaderKey(set[k-1]) != http.CanonicalHeaderKey(name) {
					continue
				}
				re := regexp.MustCompile(set[k])
				if m := re.MatchString(v1); m != re.MatchString(v2) || m != re.MatchString(v1+", "+v2) || m != re.MatchString(v1+","+v2) {
					ok = false
				}
			}
		}
		if ok {
			reqs[i].H = append(reqs[i].H, [2]string{name, v2})
		}
	}
	c.Reqs = reqs
	c.CutPairs = cutPairs
	return c
}

func TestProp(t *testing.T) {
	evid.Rapid(t, "headers", 4000, 60000, func(t *rapid.T) {
		c := genCase(t)
		evid.Run(t, "headers", c, func() evid.Outcome { return checkCase(c) })
	})
}

func TestPinned(t *testing.T) {
	cases := []Case{
		{Regs: []HReg{{Via: "get", R: "/a/?{b}", Headers: [][]string{{"X", "1"}}}}, Reqs: []rt.Req{{M: "GET", P: "/a"}, {M: "GET", P: "/a/q"}, {M: "GET", P: "/a", H: [][2]string{{"X", "1"}}}}},
		{Regs: []HReg{{Via: "routes-list", R: "/x", Headers: [][]string{{"K", "1"}}}}, Reqs: []rt.Req{{M: "GET", P: "/x"}, {M: "POST", P: "/x"}, {M: "GET", P: "/x", H: [][2]string{{"K", "1"}}}}},
		{Regs: []HReg{{Via: "get", R: "/", Headers: [][]string{{"Server", "Caddy", "Status", "200"}}}}, Reqs: []rt.Req{{M: "GET", P: "/"}, {M: "GET", P: "/", H: [][2]string{{"Server", "Caddy"}, {"Status", "200"}}}}},
		{Regs: []HReg{{Via: "get", R: "/s", Headers: [][]string{{"A", "1"}, {"B", "2"}}}, {Via: "get", R: "/{x}"}}, Reqs: []rt.Req{{M: "GET", P: "/s", H: [][2]string{{"A", "1"}}}, {M: "GET", P: "/s", H: [][2]string{{"B", "2"}}}}},
	}
	for _, c := range cases {
		c := c
		evid.Run(t, "headers", c, func() evid.Outcome { return checkCase(c) })
	}
}

func TestReplay(t *testing.T) {
	evid.Replay(t, map[string]evid.ReplayFn{
		"headers": func(raw json.RawMessage) evid.Outcome {
			var c Case
			if err := json.Unmarshal(raw, &c); err != nil {
				panic(err)
			}
			return checkCase(c)
		},
	})
}

func js(v interface{}) string {
	b, _ := json.Marshal(v)
	return string(b)
}
