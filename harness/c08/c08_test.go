// Package c08 decides property C08: registration is validated up front -
// ill-formed registrations fail loudly at registration time (never during a
// request), every well-formed one is accepted and reachable by its instances.
package c08

import (
	"encoding/json"
	"fmt"
	"net/http"
	"sort"
	"strings"
	"testing"

	"pgregory.net/rapid"

	"github.com/flamego/flamego/internal/route"
	"github.com/flamego/flamego/verifharness/internal/evid"
	"github.com/flamego/flamego/verifharness/internal/gen"
	"github.com/flamego/flamego/verifharness/internal/model"
	"github.com/flamego/flamego/verifharness/internal/rt"
)

const rule = "case = a history: 0..5 registrations the statement obliges the router to accept (in one case of four every other one of them with a header constraint that all requests satisfy), then one candidate made by a named operator (valid, break-grammar, unknown-method, routes-list = declared through Routes(path, list) with well- and ill-formed comma lists, question-sibling = siblings that differ in a '?' inside the expression or in the optional mark only, repeat, repeat-short-form, plain-after-optional, optional-after-plain, dup-bind-across, dup-bind-inside, inner-optional, inner-empty, second-mid-matchall, matchall-clash, bad-expression, single-optional, metachar-literal; declared flat, or with its text cut in front of 1..2 of its slashes into nested Group calls), then requests built from instances of every accepted route, then optionally 1..2 further well-formed registrations that conflict with nothing and requests for them and for the earlier routes, then optionally 1..2 registrations that are ill-formed whatever came before (each must be refused), and every request once more. " +
	"Oracle: the registration validity model (MUST_REJECT / MUST_ACCEPT / EITHER from the clauses of C08) against 'did Flame.Route panic' and 'did route.AddRoute fail'; accepted routes must serve all their instances (long and short form) through a route that admits them - the reference matcher's winner; no request may panic whatever happened before. " +
	"non-trivial = a MUST_REJECT candidate after >=1 accepted route, or an accepted candidate that is optional, match-all, has a user group or a metacharacter literal; distinct by case text"

var assumptions = []string{
	"shapes the statement does not classify (bind with a literal value other than **, {**} or a match-all list mixed with other elements, a match-all leaf next to a different match-all subtree at one position, bind named route) are EITHER: only 'no panic during requests' is required",
	"an expression 'does not compile' when regexp.Compile of the expression on its own fails",
	"'*' means all nine methods; a method name in another case, with blanks around it, an empty item of a comma list or a method named twice are spellings the statement does not classify (EITHER); an item that is no method at all must be refused",
	"'/a/b' next to '/a/?b' (the long form of the optional route is the other route) must be refused: two routes with the same long-form path (F12)",
}

func TestMain(m *testing.M) { evid.Main(m, "C08", rule, assumptions) }

type Case struct {
	Prefix []rt.Reg `json:"accepted_prefix"`
	Op     string   `json:"operator"`
	Final  rt.Reg   `json:"candidate"`
	Reqs   []rt.Req `json:"requests"`
	// Via: "" = Route(method, path); "routes" = Routes(path, list) with the
	// candidate's method field holding the comma list.
	Via string `json:"via,omitempty"`
	// Cuts (Via ""): the candidate's text is cut at these byte offsets (in front
	// of a slash, or at an end) and
	// declared as nested Group(piece) ... Route(method, last piece): what counts
	// is the concatenation.
	Cuts []int `json:"declared_through_groups_cut_at,omitempty"`
	// After are well-formed registrations made after the candidate (whatever
	// became of it); AfterReqs are requests built from their instances.
	After     []rt.Reg `json:"registered_afterwards,omitempty"`
	AfterReqs []rt.Req `json:"requests_afterwards,omitempty"`
	// Last are registrations that are ill-formed whatever was registered before
	// (grammar, unknown method, duplicate bind, inner optional, expression that
	// does not compile), attempted at the very end; every request is then
	// served once more.
	Last []rt.Reg `json:"ill_formed_at_the_end,omitempty"`
	// Constrained: every other route of the accepted prefix is given a header
	// constraint (a header must be present) which every request of the case
	// satisfies: nothing about what is registered changes.
	Constrained bool `json:"prefix_routes_header_constrained,omitempty"`
}

// candidateMethods interprets the method field of the candidate: the known
// methods it names, whether something in it is not a method at all, and
// whether the spelling is one the statement does not classify (lower / mixed
// case, blanks around a name given to Route, a method named twice in a list).
func candidateMethods(c Case) (methods []string, unknown, spelling bool) {
	if c.Via == "routes" {
		seen := map[string]bool{}
		for _, item := range strings.Split(c.Final.M, ",") {
			name := strings.TrimSpace(item)
			if name == "" {
				// "GET,", ",GET", "GET,,POST": whether an empty item is an error or
				// nothing at all is list syntax, which the statement does not give
				spelling = true
				continue
			}
			ms := model.ExpandMethod(name)
			if ms == nil {
				unknown = true // "GET POST", "FETCH", ... are not methods
				continue
			}
			if name != strings.ToUpper(name) || name != item {
				spelling = true // another case, or blanks around the name
			}
			for _, m := range ms {
				if seen[m] {
					// a method named twice ("GET,*"): a second registration of the same
					// route, or a list to be read as a set - not classified
					spelling = true
					continue
				}
				seen[m] = true
				methods = append(methods, m)
			}
		}
		return methods, unknown, spelling
	}
	name := strings.TrimSpace(c.Final.M)
	ms := model.ExpandMethod(name)
	if ms == nil {
		return nil, true, false
	}
	return ms, false, c.Final.M != strings.ToUpper(name)
}

// verdictFor classifies the candidate given the prefix.
func verdictFor(c Case) (model.Verdict, string) {
	methods, unknown, spelling := candidateMethods(c)
	if unknown {
		return model.MustReject, "unknown-method"
	}
	d, ok := model.ParseRef(c.Final.R)
	if !ok {
		return model.MustReject, "grammar"
	}
	g := model.NewRegistrar()
	for _, p := range c.Prefix {
		for _, m := range model.ExpandMethod(p.M) {
			g.Add(m, rt.Deriv(p.R))
		}
	}
	worst := model.MustAccept
	why := ""
	for _, m := range methods {
		v, w := g.Check(m, d)
		switch v {
		case model.MustReject:
			return v, w
		case model.Either:
			worst, why = v, w
		}
	}
	if spelling && worst == model.MustAccept {
		// "get", "Get" or "GET " given to Route: whether that is the method GET or
		// an unknown method is not said by the statement
		return model.Either, "method-spelling"
	}
	return worst, why
}

func checkCase(c Case) evid.Outcome {
	if c.Constrained {
		c.Constrained = false
		c.Prefix = append([]rt.Reg(nil), c.Prefix...)
		for i := range c.Prefix {
			if i%2 == 0 {
				c.Prefix[i].H = []string{"X-Always", ""}
			}
		}
		with := func(qs []rt.Req) []rt.Req {
			out := append([]rt.Req(nil), qs...)
			for i := range out {
				out[i].H = append(append([][2]string(nil), out[i].H...), [2]string{"X-Always", "1"})
			}
			return out
		}
		c.Reqs, c.AfterReqs = with(c.Reqs), with(c.AfterReqs)
		out := checkCase(c)
		out.Classes = append(out.Classes, "prefix-routes-header-constrained")
		return out
	}
	out := evid.Outcome{Sub: 1 + len(c.Reqs)}
	verdict, why := verdictFor(c)
	out.Classes = append(out.Classes, "op:"+c.Op, "verdict:"+verdict.String())
	if why != "" {
		out.Classes = append(out.Classes, "why:"+why)
	}

	// ---- Flame level
	app, errAt, perr := rt.NewApp(c.Prefix)
	if perr != nil {
		return evid.Fail("prefix-rejected:"+classify(perr), "registration #%d %s %q of the accepted prefix panicked although the statement obliges the router to accept it: %v", errAt, c.Prefix[errAt].M, c.Prefix[errAt].R, perr)
	}
	var ferr interface{}
	if c.Via == "routes" {
		ferr = app.RegisterRoutes(len(c.Prefix), c.Final)
	} else if len(c.Cuts) > 0 {
		ferr = app.RegisterSplit(len(c.Prefix), c.Final, c.Cuts)
		out.Classes = append(out.Classes, "declared-through-groups")
	} else {
		ferr = app.Register(len(c.Prefix), c.Final)
	}
	switch verdict {
	case model.MustReject:
		if ferr == nil {
			return evid.Fail("accepted-invalid:"+why, "registration %s %q must be rejected (%s) after %s but Flame accepted it", c.Final.M, c.Final.R, why, show(c.Prefix))
		}
		// what is refused once is refused again (a program may recover from the
		// first panic and try the same registration later)
		var ferr2 interface{}
		if c.Via == "routes" {
			ferr2 = app.RegisterRoutes(len(c.Prefix), c.Final)
		} else if len(c.Cuts) > 0 {
			ferr2 = app.RegisterSplit(len(c.Prefix), c.Final, c.Cuts)
		} else {
			ferr2 = app.Register(len(c.Prefix), c.Final)
		}
		if ferr2 == nil {
			return evid.Fail("accepted-invalid-second-time:"+why, "registration %s %q (%s) panicked the first time (%v) and was accepted when repeated; history %s", c.Final.M, c.Final.R, why, ferr, show(c.Prefix))
		}
	case model.MustAccept:
		if ferr != nil {
			return evid.Fail("rejected-valid:"+classify(ferr), "registration %s %q is well-formed after %s but Flame panicked: %v", c.Final.M, c.Final.R, show(c.Prefix), ferr)
		}
	}

	// ---- tree level (grammatical text only; methods do not exist there)
	if d, ok := model.ParseRef(c.Final.R); ok && c.Via == "" && model.ExpandMethod(c.Final.M) != nil {
		_ = d
		terr := treeRegister(c)
		switch verdict {
		case model.MustReject:
			if terr == nil {
				// the statement speaks about registration: where the router refuses
				// the route (checked above) is its own business
				out.Classes = append(out.Classes, "tree-accepts-what-the-router-refuses")
			}
		case model.MustAccept:
			if terr != nil {
				return evid.Fail("tree-rejected-valid", "route.AddRoute rejected well-formed %q after %s: %v", c.Final.R, show(c.Prefix), terr)
			}
		}
	}

	// ---- requests: never a panic; accepted routes are reachable by priority
	candMethods, _, _ := candidateMethods(c)
	all := append([]rt.Reg(nil), c.Prefix...)
	strong := false
	if verdict == model.MustAccept {
		for _, m := range candMethods {
			all = append(all, rt.Reg{M: m, R: c.Final.R})
		}
		strong = true
	} else if verdict == model.MustReject && ferr != nil {
		// a rejected registration may leave empty tree nodes behind, and a
		// rejected "*" registration may have reached some of the nine method
		// trees before it failed: only "no panic" and "served by a route that
		// admits the path" are required, the candidate counting as such a route
		strong = false
		if d, ok := model.ParseRef(c.Final.R); ok && candMethods != nil {
			if _, err := model.Compile(d, len(c.Prefix)); err == nil {
				// ... but only in the method trees where the candidate itself is
				// acceptable: where it must be rejected it must never serve
				g := model.NewRegistrar()
				for _, p := range c.Prefix {
					for _, m := range model.ExpandMethod(p.M) {
						g.Add(m, rt.Deriv(p.R))
					}
				}
				for _, m := range candMethods {
					if v, _ := g.Check(m, d); v != model.MustReject {
						all = append(all, rt.Reg{M: m, R: c.Final.R})
					}
				}
			}
		}
	}
	compiled := map[string][]model.MRoute{}
	for _, q := range c.Reqs {
		hit := app.Serve(q)
		if hit.Panic != nil {
			return evid.Fail("request-panic", "request %s %q panicked after the history %s + %s %q (%s): %v", q.M, q.P, show(c.Prefix), c.Final.M, c.Final.R, verdict, hit.Panic)
		}
		if verdict == model.Either {
			continue
		}
		routes, ok := compiled[q.M]
		if !ok {
			routes = rt.Compiled(all, q.M)
			compiled[q.M] = routes
		}
		want := model.Match(routes, q.P, nil, nil)
		if strong {
			if want.Found != (hit.Handler >= 0) {
				return evid.Fail("reachability", "%s %q: reference matcher found=%v (route %s), ServeHTTP ran handler #%d; history %s + %s %q", q.M, q.P, want.Found, canon(want), hit.Handler, show(c.Prefix), c.Final.M, c.Final.R)
			}
			if wi := want.Route; want.Found && hit.Handler != minInt(wi.Index, len(c.Prefix)) {
				return evid.Fail("reachability-winner", "%s %q: served by registration #%d, documented priority gives #%d %q", q.M, q.P, hit.Handler, want.Route.Index, want.Route.Canon)
			}
		} else if hit.Handler < 0 {
			// weak form, first half: a rejected registration takes nothing away -
			// what a route of the accepted prefix admits is still served
			if adm := model.Admitting(rt.Compiled(c.Prefix, q.M), q.P, nil, nil); len(adm) > 0 {
				return evid.Fail("prefix-route-lost", "%s %q is admitted by %q of the accepted prefix but nothing serves it after the rejected registration %s %q (%s); history %s", q.M, q.P, adm[0].Route.Canon, c.Final.M, c.Final.R, why, show(c.Prefix))
			}
		} else {
			// weak form, second half: whoever served it must admit it
			ok := false
			for _, a := range model.Admitting(routes, q.P, nil, nil) {
				idx := a.Route.Index
				if idx > len(c.Prefix) {
					idx = len(c.Prefix) // per-method copies of the candidate
				}
				if idx == hit.Handler {
					ok = true
				}
			}
			if !ok {
				if hit.Handler == len(c.Prefix) {
					return evid.Fail("rejected-route-serves", "%s %q was served by the handler of the rejected registration %s %q (%s); history %s", q.M, q.P, c.Final.M, c.Final.R, why, show(c.Prefix))
				}
				return evid.Fail("served-by-non-admitting", "%s %q served by registration #%d which does not admit it", q.M, q.P, hit.Handler)
			}
		}
	}

	// ---- registrations made afterwards: whatever became of the candidate, a
	// well-formed route that conflicts with nothing is accepted and reachable
	if len(c.After) > 0 && verdict != model.Either {
		n, nc := len(c.Prefix), len(all)-len(c.Prefix)
		for k, g := range c.After {
			if err := app.Register(n+1+k, g); err != nil {
				return evid.Fail("later-registration-rejected", "registration %s %q is well-formed and conflicts with nothing, but after the history %s + %s %q (%s) Flame panicked: %v", g.M, g.R, show(c.Prefix), c.Final.M, c.Final.R, verdict, err)
			}
		}
		later := append(append([]rt.Reg(nil), all...), c.After...)
		handlerOf := func(i int) int {
			switch {
			case i < n:
				return i
			case i < n+nc:
				return n
			}
			return n + 1 + (i - n - nc)
		}
		for _, q := range c.AfterReqs {
			hit := app.Serve(q)
			if hit.Panic != nil {
				return evid.Fail("request-panic", "request %s %q panicked after the history %s + %s %q + %s: %v", q.M, q.P, show(c.Prefix), c.Final.M, c.Final.R, show(c.After), hit.Panic)
			}
			adm := model.Admitting(rt.Compiled(later, q.M), q.P, nil, nil)
			if hit.Handler < 0 {
				// only routes that are registered for certain count here: the prefix,
				// the later registrations, and the candidate if it had to be accepted
				// (a refused candidate may or may not have reached some method trees)
				definite := append([]rt.Reg(nil), c.Prefix...)
				if verdict == model.MustAccept {
					definite = append([]rt.Reg(nil), all...)
				}
				definite = append(definite, c.After...)
				if da := model.Admitting(rt.Compiled(definite, q.M), q.P, nil, nil); len(da) > 0 {
					return evid.Fail("later-route-unreachable", "%s %q is admitted by %q (history: %s, then the candidate %s %q (%s), then %s), but nothing serves it", q.M, q.P, da[0].Route.Canon, show(c.Prefix), c.Final.M, c.Final.R, verdict, show(c.After))
				}
				continue
			}
			ok := false
			for _, a := range adm {
				if handlerOf(a.Route.Index) == hit.Handler {
					ok = true
				}
			}
			if !ok {
				return evid.Fail("served-by-non-admitting", "%s %q served by registration #%d which does not admit it (after later registrations %s)", q.M, q.P, hit.Handler, show(c.After))
			}
		}
		out.Classes = append(out.Classes, "registered-afterwards")
	}

	// ---- further ill-formed registrations at the very end: each is refused, and
	// takes nothing away
	if len(c.Last) > 0 && verdict != model.Either {
		definite := append([]rt.Reg(nil), c.Prefix...)
		if verdict == model.MustAccept {
			definite = append([]rt.Reg(nil), all...)
		}
		definite = append(definite, c.After...)
		for j, g := range c.Last {
			if v, w := verdictFor(Case{Final: g}); v != model.MustReject {
				panic("harness: " + g.M + " " + g.R + " is not ill-formed on its own: " + w)
			}
			if err := app.Register(len(c.Prefix)+1+len(c.After)+j, g); err == nil {
				return evid.Fail("accepted-invalid-late", "the ill-formed registration %s %q was accepted at the end of the history %s + %s %q (%s) + %s", g.M, g.R, show(c.Prefix), c.Final.M, c.Final.R, verdict, show(c.After))
			}
		}
		for _, q := range append(append([]rt.Req(nil), c.Reqs...), c.AfterReqs...) {
			hit := app.Serve(q)
			if hit.Panic != nil {
				return evid.Fail("request-panic", "request %s %q panicked after the refused registrations %s at the end of the history %s + %s %q: %v", q.M, q.P, show(c.Last), show(c.Prefix), c.Final.M, c.Final.R, hit.Panic)
			}
			if hit.Handler >= len(c.Prefix)+1+len(c.After) {
				return evid.Fail("rejected-route-serves", "%s %q was served by the handler of a refused registration (%s)", q.M, q.P, show(c.Last))
			}
			if hit.Handler < 0 {
				if da := model.Admitting(rt.Compiled(definite, q.M), q.P, nil, nil); len(da) > 0 {
					return evid.Fail("route-lost-after-late-rejection", "%s %q is admitted by %q, but nothing serves it after the refused registrations %s (history %s, candidate %s %q (%s), then %s)", q.M, q.P, da[0].Route.Canon, show(c.Last), show(c.Prefix), c.Final.M, c.Final.R, verdict, show(c.After))
				}
			}
		}
		out.NonTrivial = true
		out.Classes = append(out.Classes, "ill-formed-at-the-end")
	}

	switch {
	case verdict == model.MustReject && len(c.Prefix) > 0:
		out.NonTrivial = true
	case verdict == model.MustAccept:
		if d, ok := model.ParseRef(c.Final.R); ok {
			for _, s := range d.Segs {
				k, _, _ := s.Classify()
				if s.Optional || k == model.KMatchAll {
					out.NonTrivial = true
				}
				for _, x := range s.Exprs() {
					if strings.Contains(x, "(") {
						out.NonTrivial = true
					}
				}
				if k == model.KRegex {
					for _, e := range s.Elems {
						if e.Lit != "" && strings.ContainsAny(e.Lit, ".+*()$") {
							out.NonTrivial = true
						}
					}
				}
			}
		}
	}
	return out
}

func minInt(a, b int) int {
	if a < b {
		return a
	}
	return b
}

func canon(r model.Result) string {
	if r.Route == nil {
		return "-"
	}
	return r.Route.Canon
}

func classify(err interface{}) string {
	s := fmt.Sprint(err)
	switch {
	case strings.Contains(s, "nil pointer"):
		return "nil-deref"
	case strings.Contains(s, "compile regexp"):
		return "regexp-compile"
	case strings.Contains(s, "duplicated"):
		return "duplicated"
	case strings.Contains(s, "unable to parse"):
		return "parse"
	}
	return "other"
}

func treeRegister(c Case) (err error) {
	defer func() {
		if r := recover(); r != nil {
			err = fmt.Errorf("panic: %v", r)
		}
	}()
	// one tree per method of the candidate; report the first error
	for _, m := range model.ExpandMethod(c.Final.M) {
		tree := route.NewTree()
		for _, p := range c.Prefix {
			on := false
			for _, pm := range model.ExpandMethod(p.M) {
				if pm == m {
					on = true
				}
			}
			if !on {
				continue
			}
			ast, perr := rt.Parse(p.R)
			if perr != nil {
				return fmt.Errorf("prefix %q: %v", p.R, perr)
			}
			if _, aerr := route.AddRoute(tree, ast, func(http.ResponseWriter, *http.Request, route.Params) {}); aerr != nil {
				return fmt.Errorf("prefix %q: %v", p.R, aerr)
			}
		}
		ast, perr := rt.Parse(c.Final.R)
		if perr != nil {
			return perr
		}
		if _, aerr := route.AddRoute(tree, ast, func(http.ResponseWriter, *http.Request, route.Params) {}); aerr != nil {
			return aerr
		}
	}
	return nil
}

func show(regs []rt.Reg) string {
	var parts []string
	for _, g := range regs {
		h := ""
		if len(g.H) > 0 {
			h = fmt.Sprintf(" .Headers(%s)", strings.Join(g.H, ","))
		}
		parts = append(parts, g.M+" "+g.R+h)
	}
	return "[" + strings.Join(parts, " ; ") + "]"
}

// ---- generator -----------------------------------------------------------------

var ops = []string{
	"valid", "valid", "valid", "break-grammar", "unknown-method", "routes-list", "question-sibling", "repeat", "repeat-short-form", "plain-after-optional",
	"optional-after-plain", "dup-bind-across", "dup-bind-inside", "inner-optional", "inner-empty", "second-mid-matchall",
	"matchall-clash", "bad-expression", "single-optional", "metachar-literal", "unclassified", "shared-mid-matchall", "option-names-as-binds",
}

var badExprs = []string{"[", "(", "a)(b", "*", "a{2,1}", "[z-a]", "(?P<x", "x**", "\\", "a(?", ")"}

func seg(lit string) model.Seg { return model.Seg{Elems: []model.Elem{{Lit: lit}}} }

func genCase(t *rapid.T) Case {
	methods := []string{"GET"}
	if rapid.IntRange(0, 3).Draw(t, "multi") == 0 {
		methods = []string{"GET", "POST", "*", "get", "PUT", "DELETE", "PATCH", "OPTIONS", "HEAD", "CONNECT", "TRACE", "Post"}
	}
	pool := gen.SegPool(t, 5, false)
	prefix, _ := gen.RouteSet(t, gen.SetOpts{MaxRoutes: 5, Methods: methods, Route: gen.RouteOpts{SegmentPool: pool}})
	if rapid.IntRange(0, 5).Draw(t, "emptyprefix") == 0 {
		prefix = nil
	}
	op := ops[rapid.IntRange(0, len(ops)-1).Draw(t, "op")]
	m := methods[rapid.IntRange(0, len(methods)-1).Draw(t, "fm")]
	fresh := func() model.Route { return gen.Route(t, gen.RouteOpts{SegmentPool: pool}) }
	pickPrefix := func() (model.Route, string, bool) {
		if len(prefix) == 0 {
			return model.Route{}, "", false
		}
		g := prefix[rapid.IntRange(0, len(prefix)-1).Draw(t, "pp")]
		return rt.Deriv(g.R), g.M, true
	}
	var text string
	d := fresh()
	switch op {
	case "valid":
	case "option-names-as-binds":
		// "capture", "route" and "withOptional" are words the route syntax or the
		// URL builder use; as bind names they are names like any other, also
		// behind a match-all that carries a capture limit
		d = rt.Deriv([]string{
			"/on1/{p: **, capture: 2}/{capture}", "/on2/{p: **, capture: 3}/x/{capture: /[0-9]+/}", "/on3/{capture}/{q: **, capture: 1}/end",
			"/on4/{p: **, capture: 2}/?{capture}", "/on5/{route}/{withOptional}",
		}[rapid.IntRange(0, 4).Draw(t, "optname")])
	case "break-grammar":
		b := []byte(d.Source())
		hot := []byte("{}:,? \t#[/")
		for i := 0; i < 4; i++ {
			c := hot[rapid.IntRange(0, len(hot)-1).Draw(t, "hc")]
			j := rapid.IntRange(0, len(b)).Draw(t, "j")
			if rapid.Bool().Draw(t, "ins") || j == len(b) {
				b = append(b[:j:j], append([]byte{c}, b[j:]...)...)
			} else {
				b[j] = c
			}
			if !model.Accepts(string(b)) {
				break
			}
		}
		text = string(b)
		if rapid.IntRange(0, 5).Draw(t, "noslash") == 0 {
			text = strings.TrimPrefix(d.Source(), "/")
		}
	case "unknown-method":
		m = []string{"FETCH", "", "GET ", "G", "*GET", "GET,POST", "**"}[rapid.IntRange(0, 6).Draw(t, "um")]
	case "repeat":
		if p, pm, ok := pickPrefix(); ok {
			d, m = p, pm
		}
	case "repeat-short-form":
		// an optional route whose short form equals a registered route, or the reverse
		if p, pm, ok := pickPrefix(); ok {
			m = pm
			n := len(p.Segs)
			if p.Segs[n-1].Optional {
				d = model.Route{Segs: append([]model.Seg(nil), p.Segs[:n-1]...)}
				if n == 1 {
					d = model.Route{Segs: []model.Seg{{}}}
				}
			} else if len(p.Segs[n-1].Elems) > 0 {
				extra := seg("opt")
				extra.Optional = true
				d = model.Route{Segs: append(append([]model.Seg(nil), p.Segs...), extra)}
			}
		}
	case "plain-after-optional":
		if p, pm, ok := pickPrefix(); ok {
			m = pm
			n := len(p.Segs)
			cp := append([]model.Seg(nil), p.Segs...)
			cp[n-1] = model.Seg{Elems: cp[n-1].Elems, Optional: !cp[n-1].Optional}
			d = model.Route{Segs: cp}
		}
	case "optional-after-plain":
		if p, pm, ok := pickPrefix(); ok && !p.Segs[len(p.Segs)-1].Optional {
			m = pm
			n := len(p.Segs)
			if n >= 2 {
				cp := append([]model.Seg(nil), p.Segs...)
				cp[n-1] = model.Seg{Elems: cp[n-1].Elems, Optional: true}
				// same long form as p, and its short form is new: a twin
				d = model.Route{Segs: cp}
			}
		}
	case "dup-bind-across":
		// first use of the name in a segment of any kind, reuse in a later
		// segment of any kind, optional static segments around them
		name := "a"
		mkUse := func(label string, lastSeg bool) model.Seg {
			switch rapid.IntRange(0, 4).Draw(t, label) {
			case 0:
				return model.Seg{Elems: []model.Elem{{Bind: name}}}
			case 1:
				return model.Seg{Elems: []model.Elem{{Params: []model.Param{{Name: name, IsRegex: true, Value: "[0-9]+", Blanks: 1}}}}}
			case 2:
				return model.Seg{Elems: []model.Elem{{Lit: "v"}, {Bind: name}}}
			case 3:
				return model.Seg{Elems: []model.Elem{{Params: []model.Param{{Name: "o", IsRegex: true, Value: "[a-z]+", Blanks: 1}}}, {Lit: "."}, {Params: []model.Param{{Name: name, IsRegex: true, Value: "[0-9]+", Blanks: 1}}}}}
			default:
				return model.Seg{Elems: []model.Elem{{Params: []model.Param{{Name: name, Value: "**", Blanks: 1}}}}}
			}
		}
		d = model.Route{}
		if rapid.Bool().Draw(t, "head") {
			d.Segs = append(d.Segs, seg("w"))
		}
		d.Segs = append(d.Segs, mkUse("use1", false))
		// 0..2 segments of any kind between the two uses, with names of their own
		for i, n := 0, rapid.IntRange(0, 2).Draw(t, "nmid"); i < n; i++ {
			mn := fmt.Sprintf("m%d", i+1)
			switch rapid.IntRange(0, 6).Draw(t, "mid") {
			case 0:
				d.Segs = append(d.Segs, seg("mid"))
			case 1:
				d.Segs = append(d.Segs, model.Seg{Elems: []model.Elem{{Bind: mn}}})
			case 2:
				d.Segs = append(d.Segs, model.Seg{Elems: []model.Elem{{Params: []model.Param{{Name: mn, IsRegex: true, Value: "[0-9]+", Blanks: 1}}}}})
			case 3:
				d.Segs = append(d.Segs, model.Seg{Elems: []model.Elem{{Lit: "v"}, {Bind: mn}}})
			case 4:
				d.Segs = append(d.Segs, model.Seg{Elems: []model.Elem{{Params: []model.Param{{Name: mn, Value: "**", Blanks: 1}}}}})
			case 5:
				d.Segs = append(d.Segs, model.Seg{Elems: []model.Elem{{Bind: "**"}}})
			default:
				d.Segs = append(d.Segs, model.Seg{Elems: []model.Elem{{Params: []model.Param{{Name: mn, Value: "**", Blanks: 1}, {Name: "capture", Value: "2", Blanks: 1, Lead: 1}}}}})
			}
		}
		d.Segs = append(d.Segs, mkUse("use2", true))
		switch rapid.IntRange(0, 2).Draw(t, "tail") {
		case 1:
			d.Segs = append(d.Segs, seg("events"))
		case 2:
			d.Segs[len(d.Segs)-1].Optional = true
		}
	case "dup-bind-inside":
		switch rapid.IntRange(0, 2).Draw(t, "dk") {
		case 0:
			d = model.Route{Segs: []model.Seg{{Elems: []model.Elem{{Bind: "a"}, {Lit: "-"}, {Bind: "a"}}}}}
		case 1:
			d = model.Route{Segs: []model.Seg{{Elems: []model.Elem{{Params: []model.Param{{Name: "a", IsRegex: true, Value: "x", Blanks: 1}, {Name: "a", IsRegex: true, Value: "y", Blanks: 1, Lead: 1}}}}}}}
		default:
			d = model.Route{Segs: []model.Seg{seg("p"), {Elems: []model.Elem{{Bind: "b"}, {Lit: "."}, {Params: []model.Param{{Name: "b", IsRegex: true, Value: "[a-z]+", Blanks: 1}}}}}, seg("q")}}
		}
	case "inner-optional":
		// sometimes start from a registered route, so that the tree already has
		// the segment that is now marked optional, and continue differently
		if p, pm, ok := pickPrefix(); ok && len(p.Segs) >= 2 && rapid.Bool().Draw(t, "fromprefix") {
			cp := append([]model.Seg(nil), p.Segs...)
			cp[len(cp)-1] = seg("zzt")
			d, m = model.Route{Segs: cp}, pm
			for i := range d.Segs {
				d.Segs[i].Optional = false
			}
		}
		if len(d.Segs) < 2 {
			d.Segs = append(d.Segs, seg("tail"))
		}
		j := rapid.IntRange(0, len(d.Segs)-2).Draw(t, "oj")
		cp := append([]model.Seg(nil), d.Segs...)
		cp[j] = model.Seg{Elems: cp[j].Elems, Optional: true}
		d = model.Route{Segs: cp}
	case "inner-empty":
		if len(d.Segs) < 2 {
			d.Segs = append(d.Segs, seg("tail"))
		}
		j := rapid.IntRange(0, len(d.Segs)-2).Draw(t, "ej")
		cp := append([]model.Seg(nil), d.Segs[:j]...)
		cp = append(cp, model.Seg{})
		cp = append(cp, d.Segs[j:]...)
		d = model.Route{Segs: cp}
	case "second-mid-matchall":
		ma := func(name string) model.Seg {
			if name == "" {
				return model.Seg{Elems: []model.Elem{{Bind: "**"}}}
			}
			return model.Seg{Elems: []model.Elem{{Params: []model.Param{{Name: name, Value: "**", Blanks: 1}}}}}
		}
		first, second := "p", "q"
		if rapid.IntRange(0, 3).Draw(t, "short1") == 0 {
			first = ""
		} else if rapid.IntRange(0, 3).Draw(t, "short2") == 0 {
			second = ""
		}
		d = model.Route{Segs: []model.Seg{seg("t"), ma(first)}}
		used := map[string]bool{"p": true, "q": true, "**": true}
		for i, n := 0, rapid.IntRange(0, 2).Draw(t, "between"); i < n; i++ {
			k := []model.Kind{model.KStatic, model.KRegex, model.KPlaceholder}[rapid.IntRange(0, 2).Draw(t, "bk")]
			d.Segs = append(d.Segs, gen.SegOfKind(t, k, used, false))
		}
		d.Segs = append(d.Segs, ma(second), seg("u"))
	case "matchall-clash":
		// a different match-all at the position of a registered one
		found := false
		for _, g := range prefix {
			p := rt.Deriv(g.R)
			for i, s := range p.Segs {
				if k, _, _ := s.Classify(); k == model.KMatchAll {
					cp := append([]model.Seg(nil), p.Segs...)
					cp[i] = model.Seg{Elems: []model.Elem{{Params: []model.Param{{Name: "other", Value: "**", Blanks: 1}}}}, Optional: s.Optional}
					if i == len(cp)-1 && i > 0 && rapid.Bool().Draw(t, "clashopt") {
						cp[i].Optional = !cp[i].Optional
					}
					if i == len(cp)-1 && !cp[i].Optional && rapid.IntRange(0, 2).Draw(t, "clashtail") == 0 {
						// ... followed by an optional last segment: the short form of the
						// candidate ends in the clashing match-all
						tail := seg("raw")
						tail.Optional = true
						cp = append(cp, tail)
					}
					d, m, found = model.Route{Segs: cp}, g.M, true
				}
			}
		}
		if !found {
			// build the clash from scratch: needs its own prefix entry
			base := model.Route{Segs: []model.Seg{seg("ma"), {Elems: []model.Elem{{Params: []model.Param{{Name: "p", Value: "**", Blanks: 1}}}}}}}
			if rapid.Bool().Draw(t, "sub") {
				base.Segs = append(base.Segs, seg("x"))
			}
			g := model.NewRegistrar()
			ok := true
			for _, p := range prefix {
				for _, mm := range model.ExpandMethod(p.M) {
					g.Add(mm, rt.Deriv(p.R))
				}
			}
			for _, mm := range model.ExpandMethod(m) {
				if v, _ := g.Check(mm, base); v != model.MustAccept {
					ok = false
				}
			}
			if ok {
				prefix = append(prefix, rt.Reg{M: m, R: base.Source()})
				cp := append([]model.Seg(nil), base.Segs...)
				cp[1] = model.Seg{Elems: []model.Elem{{Params: []model.Param{{Name: "q", Value: "**", Blanks: 1}}}}}
				if len(cp) == 2 && rapid.IntRange(0, 2).Draw(t, "clashtail2") == 0 {
					tail := seg("raw")
					tail.Optional = true
					cp = append(cp, tail)
				}
				d = model.Route{Segs: cp}
			}
		}
	case "shared-mid-matchall":
		// a valid route that shares its non-final match-all segment with a
		// registered one and continues differently
		name := []string{"", "paths"}[rapid.IntRange(0, 1).Draw(t, "sname")]
		mk := func(tail ...string) model.Route {
			r := model.Route{Segs: []model.Seg{seg("sh")}}
			if name == "" {
				r.Segs = append(r.Segs, model.Seg{Elems: []model.Elem{{Bind: "**"}}})
			} else {
				r.Segs = append(r.Segs, model.Seg{Elems: []model.Elem{{Params: []model.Param{{Name: name, Value: "**", Blanks: 1}}}}})
			}
			for _, x := range tail {
				r.Segs = append(r.Segs, seg(x))
			}
			return r
		}
		tails := [][]string{{"blob"}, {"raw"}, {"blob", "view"}, {"x", "y", "z"}}
		a := tails[rapid.IntRange(0, 3).Draw(t, "ta")]
		b := tails[rapid.IntRange(0, 3).Draw(t, "tb")]
		base := mk(a...)
		g := model.NewRegistrar()
		okp := true
		for _, p := range prefix {
			for _, mm := range model.ExpandMethod(p.M) {
				g.Add(mm, rt.Deriv(p.R))
			}
		}
		for _, mm := range model.ExpandMethod(m) {
			if v, _ := g.Check(mm, base); v != model.MustAccept {
				okp = false
			}
		}
		if okp {
			prefix = append(prefix, rt.Reg{M: m, R: base.Source()})
			d = mk(b...)
		}
	case "bad-expression":
		x := badExprs[rapid.IntRange(0, len(badExprs)-1).Draw(t, "bx")]
		ok := true
		for i := 0; i < len(x); i++ {
			if !model.IsRegexChar(x[i]) {
				ok = false
			}
		}
		if ok {
			e := model.Elem{Params: []model.Param{{Name: "e", IsRegex: true, Value: x, Blanks: 1}}}
			switch rapid.IntRange(0, 2).Draw(t, "bk") {
			case 0:
				d = model.Route{Segs: []model.Seg{{Elems: []model.Elem{e}}}}
			case 1:
				d = model.Route{Segs: []model.Seg{seg("r"), {Elems: []model.Elem{{Lit: "v"}, e}}, seg("s")}}
			default:
				e.Params = append(e.Params, model.Param{Name: "f", IsRegex: true, Value: "[0-9]+", Blanks: 1, Lead: 1})
				d = model.Route{Segs: []model.Seg{{Elems: []model.Elem{e}}, seg("s")}}
			}
		}
	case "single-optional":
		used := map[string]bool{}
		s := gen.SegOfKind(t, []model.Kind{model.KStatic, model.KPlaceholder, model.KRegex, model.KMatchAll}[rapid.IntRange(0, 3).Draw(t, "sk")], used, false)
		s.Optional = true
		d = model.Route{Segs: []model.Seg{s}}
	case "metachar-literal":
		lit := []string{"f(g", "c)", "a+b", "a*b", "x.y", "$", "(z)", "+", "k."}[rapid.IntRange(0, 8).Draw(t, "ml")]
		d = model.Route{Segs: []model.Seg{{Elems: []model.Elem{{Lit: lit}, {Bind: "v"}}}}}
		if rapid.Bool().Draw(t, "mtail") {
			d.Segs = append(d.Segs, seg("t"))
		}
	case "question-sibling":
		// two routes whose last segments differ in one "?" inside the expression
		// (a quantifier, not the optional mark), or in the optional mark only
		exprs := [][2]string{{"v?[0-9]+", "v[0-9]+"}, {"[a-z]+s?", "[a-z]+s"}, {"(en|fr)?", "(en|fr)"}}
		e := exprs[rapid.IntRange(0, len(exprs)-1).Draw(t, "qe")]
		mk := func(expr string, optional bool) model.Route {
			return model.Route{Segs: []model.Seg{seg("zq"), {Optional: optional, Elems: []model.Elem{{Params: []model.Param{{Name: "ver", Value: expr, IsRegex: true, Blanks: 1}}}}}}}
		}
		first := mk(e[0], false)
		g := model.NewRegistrar()
		ok := true
		for _, p := range prefix {
			for _, pm := range model.ExpandMethod(p.M) {
				g.Add(pm, rt.Deriv(p.R))
			}
		}
		if v, _ := g.Check("GET", first); v != model.MustAccept {
			ok = false
		}
		if ok {
			prefix = append(prefix, rt.Reg{M: "GET", R: first.Source()})
			m = "GET"
			switch rapid.IntRange(0, 2).Draw(t, "qk") {
			case 0:
				d = mk(e[1], false) // another expression: another route
			case 1:
				d = mk(e[0], true) // the same route with the optional mark: a duplicate
			default:
				d = mk(e[1], true)
			}
		}
	case "unclassified":
		switch rapid.IntRange(0, 3).Draw(t, "uk") {
		case 0:
			d = model.Route{Segs: []model.Seg{{Elems: []model.Elem{{Params: []model.Param{{Name: "x", Value: "abc", Blanks: 1}}}}}}}
		case 1:
			d = model.Route{Segs: []model.Seg{{Elems: []model.Elem{{Bind: "**"}, {Lit: "x"}}}}}
		case 2:
			d = model.Route{Segs: []model.Seg{{Elems: []model.Elem{{Params: []model.Param{{Name: "x", Value: "**", Blanks: 1}}}, {Lit: "abc"}}}, seg("t")}}
		default:
			d = model.Route{Segs: []model.Seg{seg("a"), {Optional: true}}}
		}
	}
	if text == "" {
		text = d.Source()
	}
	c := Case{Prefix: prefix, Op: op, Final: rt.Reg{M: m, R: text}}
	if op == "routes-list" {
		// the candidate is declared through Routes(path, list): every item of the
		// comma list must be a method, blanks around the items aside
		c.Via = "routes"
		c.Final.M = []string{"GET,POST", "GET, POST", " PUT ,DELETE", "GET,", ",GET", "GET,,POST", "GET POST", ",", " ", "GET;POST", "GET,FETCH", "get,post", "*", "GET,*"}[rapid.IntRange(0, 13).Draw(t, "rl")]
	}
	if c.Via == "" && rapid.IntRange(0, 3).Draw(t, "groups") == 0 {
		// the same text declared through nested groups, cut anywhere (also inside
		// a segment or a bind)
		// (cut in front of a slash, or at either end: a group path is then a
		// run of whole segments - an implementation may look at it on its own)
		places := []int{0, len(text)}
		for i := 0; i < len(text); i++ {
			if text[i] == '/' {
				places = append(places, i)
			}
		}
		sort.Ints(places)
		i1 := rapid.IntRange(0, len(places)-1).Draw(t, "cut1")
		c.Cuts = []int{places[i1]}
		if rapid.Bool().Draw(t, "twocuts") {
			c.Cuts = append(c.Cuts, places[rapid.IntRange(i1, len(places)-1).Draw(t, "cut2")])
		}
	}
	candMethods, candUnknown, _ := candidateMethods(c)
	// requests: instances of everything that may be registered
	all := append([]rt.Reg(nil), prefix...)
	if model.Accepts(text) && !candUnknown {
		if v, _ := verdictFor(c); v == model.MustAccept {
			for _, cm := range candMethods {
				all = append(all, rt.Reg{M: cm, R: text})
			}
		}
	}
	c.Reqs = gen.Requests(t, all, 10)
	if dd, ok := model.ParseRef(text); ok && candMethods != nil {
		if _, err := model.Compile(dd, 0); err == nil {
			mm := candMethods
			c.Reqs = append(c.Reqs, rt.Req{M: mm[0], P: "/" + strings.Join(gen.Instance(t, dd, false), "/")})
			if dd.Segs[len(dd.Segs)-1].Optional {
				c.Reqs = append(c.Reqs, rt.Req{M: mm[len(mm)-1], P: "/" + strings.Join(gen.Instance(t, dd, true), "/")})
			}
		}
	}
	// every accepted route's own instances, long and short
	for _, g := range all {
		dd := rt.Deriv(g.R)
		mm := model.ExpandMethod(g.M)[0]
		c.Reqs = append(c.Reqs, rt.Req{M: mm, P: "/" + strings.Join(gen.Instance(t, dd, false), "/")})
		if dd.Segs[len(dd.Segs)-1].Optional {
			c.Reqs = append(c.Reqs, rt.Req{M: mm, P: "/" + strings.Join(gen.Instance(t, dd, true), "/")})
		}
	}
	// registrations made afterwards: fresh routes that conflict neither with
	// the prefix nor with the candidate (so that nothing a rejected candidate
	// may have left behind in some method trees matters)
	if rapid.IntRange(0, 2).Draw(t, "after") > 0 {
		g := model.NewRegistrar()
		for _, p := range prefix {
			for _, pm := range model.ExpandMethod(p.M) {
				g.Add(pm, rt.Deriv(p.R))
			}
		}
		withCand := model.NewRegistrar()
		for _, p := range prefix {
			for _, pm := range model.ExpandMethod(p.M) {
				withCand.Add(pm, rt.Deriv(p.R))
			}
		}
		if dd, ok := model.ParseRef(text); ok {
			for _, cm := range model.Methods {
				withCand.Add(cm, dd)
			}
		}
		for i, k := 0, rapid.IntRange(1, 2).Draw(t, "nafter"); i < k; i++ {
			ad := fresh()
			am := []string{"GET", "POST", "PUT"}[rapid.IntRange(0, 2).Draw(t, "am")]
			v1, _ := g.Check(am, ad)
			v2, _ := withCand.Check(am, ad)
			if v1 != model.MustAccept || v2 != model.MustAccept {
				continue
			}
			g.Add(am, ad)
			withCand.Add(am, ad)
			c.After = append(c.After, rt.Reg{M: am, R: ad.Source()})
			c.AfterReqs = append(c.AfterReqs, rt.Req{M: am, P: "/" + strings.Join(gen.Instance(t, ad, false), "/")})
			if ad.Segs[len(ad.Segs)-1].Optional {
				c.AfterReqs = append(c.AfterReqs, rt.Req{M: am, P: "/" + strings.Join(gen.Instance(t, ad, true), "/")})
			}
		}
		// the earlier routes must still be there as well
		for _, p := range prefix {
			c.AfterReqs = append(c.AfterReqs, rt.Req{M: model.ExpandMethod(p.M)[0], P: "/" + strings.Join(gen.Instance(t, rt.Deriv(p.R), false), "/")})
		}
	}
	if rapid.IntRange(0, 2).Draw(t, "last") == 0 {
		bad := []rt.Reg{{M: "GET", R: "/{a}/{a}"}, {M: "GET", R: "/l1/?l2/l3"}, {M: "POST", R: "/{a: /[/}"}, {M: "GET", R: "l4"}, {M: "FETCH", R: "/l5"},
			{M: "*", R: "/{a}-{a}"}, {M: "GET", R: "/l6/{a: /(/}"}, {M: "*", R: "/l7/{b"}, {M: "PUT", R: "/?l8/l9"}, {M: "GET", R: "/{a: /x/, a: /y/}"}}
		for i, k := 0, rapid.IntRange(1, 2).Draw(t, "nlast"); i < k; i++ {
			g := bad[rapid.IntRange(0, len(bad)-1).Draw(t, "lastk")]
			if len(prefix) > 0 && rapid.IntRange(0, 2).Draw(t, "lastunder") == 0 {
				// the same defect below the path of a registered route
				if p := prefix[rapid.IntRange(0, len(prefix)-1).Draw(t, "lastp")]; strings.HasPrefix(g.R, "/") && !strings.Contains(p.R, "?") && !strings.Contains(p.R, "**") && !strings.Contains(p.R, "{a") {
					g.R = strings.TrimSuffix(p.R, "/") + g.R
				}
			}
			if v, _ := verdictFor(Case{Final: g}); v == model.MustReject {
				c.Last = append(c.Last, g)
			}
		}
	}
	c.Constrained = len(c.Prefix) > 0 && rapid.IntRange(0, 3).Draw(t, "constrained") == 0
	return c
}

func TestProp(t *testing.T) {
	evid.Rapid(t, "history", 4000, 60000, func(t *rapid.T) {
		c := genCase(t)
		evid.Run(t, "history", c, func() evid.Outcome { return checkCase(c) })
	})
}

// FuzzHistory: the generator and the check of TestProp under the native fuzzer
// (thorough tier; coverage of the registration code steers the histories).
func FuzzHistory(f *testing.F) {
	evid.FuzzSeeds(f, 24, 4096)
	f.Fuzz(rapid.MakeFuzz(func(t *rapid.T) {
		c := genCase(t)
		evid.FuzzRun(t, c, func() evid.Outcome { return checkCase(c) })
	}))
}

// TestPinned keeps the shapes behind fixed findings and the repository's own
// documented rejections as plain regression cases.
func TestPinned(t *testing.T) {
	get := func(r string) rt.Reg { return rt.Reg{M: "GET", R: r} }
	cases := []Case{
		{Op: "single-optional", Final: get("/?abc"), Reqs: []rt.Req{{M: "GET", P: "/"}, {M: "GET", P: "/abc"}, {M: "GET", P: "/x"}}},
		{Op: "metachar-literal", Final: get("/f(g{v}"), Reqs: []rt.Req{{M: "GET", P: "/f(gx"}}},
		{Op: "dup-bind-inside", Final: get("/{a}-{a}")},
		{Op: "dup-bind-inside", Final: get("/{a: /x/, a: /y/}")},
		{Op: "bad-expression", Final: get("/{e: /a)(b/}/s")},
		{Op: "repeat-short-form", Prefix: []rt.Reg{get("/webapi/users")}, Final: get("/webapi/users/?events")},
		{Op: "second-mid-matchall", Final: get("/webapi/tree/{paths: **}/{names: **}/upload")},
		{Op: "matchall-clash", Prefix: []rt.Reg{get("/webapi/{name: **}")}, Final: get("/webapi/{user: **}")},
		{Op: "matchall-clash", Prefix: []rt.Reg{get("/webapi/{name: **}/events")}, Final: get("/webapi/{user: **}/events")},
		{Op: "valid", Prefix: []rt.Reg{get("/webapi/{name: **}")}, Final: get("/webapi/{name: **}/events"), Reqs: []rt.Req{{M: "GET", P: "/webapi/a/b/events"}, {M: "GET", P: "/webapi/a/b"}}},
		{Op: "unknown-method", Final: rt.Reg{M: "FETCH", R: "/a"}},
		{Op: "valid", Final: rt.Reg{M: "get", R: "/a"}, Reqs: []rt.Req{{M: "GET", P: "/a"}}},
	}
	for _, c := range cases {
		c := c
		evid.Run(t, "history", c, func() evid.Outcome { return checkCase(c) })
	}
}

func TestReplay(t *testing.T) {
	evid.Replay(t, map[string]evid.ReplayFn{
		"history": func(raw json.RawMessage) evid.Outcome {
			var c Case
			if err := json.Unmarshal(raw, &c); err != nil {
				panic(err)
			}
			return checkCase(c)
		},
	})
}
