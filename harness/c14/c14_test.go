// Package c14 decides property C14: handler return values map to the response
// by a fixed table, identically on the reflective and the built-in fast path,
// and a ReturnHandler in the injector replaces the table.
package c14

import (
	gocontext "context"
	"encoding/json"
	"errors"
	"fmt"
	"io"
	"net"
	"net/http"
	"net/url"
	"os"
	"reflect"
	"strconv"
	"strings"
	"syscall"
	"testing"

	"pgregory.net/rapid"

	"github.com/flamego/flamego"
	"github.com/flamego/flamego/verifharness/internal/evid"
	"github.com/flamego/flamego/verifharness/internal/gen"
	"github.com/flamego/flamego/verifharness/internal/rt"
)

const rule = "case = one handler of a supported return shape (string, []byte, error (from func() and from func(Context)), *string, *[]byte, named string, named []byte, any holding a string / a byte slice / an error, (named int, string), (int,string), (int,[]byte), (int,error), (string,error), ([]byte,error); func() (int,string) both as the auto-wrapped fast path and as a named func type invoked reflectively) optionally flushing, sending a status line, writing itself, cancelling its request, calling Next() or registering a before-function that serves a nested request first and then returning generated values (arbitrary bytes, occasionally 0.5..70 KB of them, empty, nil, nil/non-nil errors of 6 concrete types incl. one with an empty message and two whose dynamic value is the zero value of its type, and 24 well-known error values of the standard library (context.Canceled, io.EOF, http.ErrAbortHandler, EPIPE, ...) as they are or wrapped, status 100..999), placed as middleware, group handler, route handler or action, followed by a marker handler; optionally a custom ReturnHandler mapped at application or request scope. " +
	"Oracle: an own table (status, body, chain continues?) checked on a spy writer (with or without a WriteString method; after the handler's own output, if any: the returned values are rendered all the same), 'marker ran <=> nothing was written', fast path == reflective path, and a custom ReturnHandler receives exactly the returned values while the table is not applied. " +
	"non-trivial = empty / nil / zero results, a nil error in a pair, a pointer or interface result, a non-200 status, a position other than the route handler, or a custom ReturnHandler; distinct by case text"

var assumptions = []string{
	"a handler that cancels its own request and then returns a value: the value is rendered and the chain stops there (C03: return values are rendered first, then the cancellation is looked at)",
	"a handler that has already flushed / sent a status line / written itself and then returns a value: the value is rendered all the same ('after a handler returns, its return values having been rendered first', C03) - only the status line is taken by then",
	"int statuses are valid status codes (net/http panics on others)",
	"(int, \"\") sends the status with an empty body: 'uses the int as status' (DESIGN.md section 6)",
}

func TestMain(m *testing.M) { evid.Main(m, "C14", rule, assumptions) }

type Case struct {
	Shape  string `json:"shape"`
	S      string `json:"s"`      // strconv.Quote form of the string / bytes value
	Nil    bool   `json:"nil"`    // []byte / *string / any is nil
	Err    string `json:"err"`    // "", nil, new, custom, wrapped, emptymsg, zerostruct, zerostring, std, stdwrapped
	// Std (err = std | stdwrapped): which well-known error value of the standard
	// library the handler returns (as it is, or wrapped with %w): what an outbound
	// call, a file or a decoder hands back while the request itself is alive
	Std int `json:"std_error,omitempty"`
	Code   int    `json:"code"`   // for (int, x)
	Pos    string `json:"pos"`    // use | group | route | action
	Custom string `json:"custom"` // "", app, request
	// Pre puts a handler in front (before a request-scope mapping) that
	// returns a value which writes nothing: "", emptystr, nilerr, emptybytes.
	Pre string `json:"pre,omitempty"`
	// Own is what the handler itself does to the response before it returns:
	// "", flush, wh (WriteHeader 202), w (Write "own:"), cancel (the request context is cancelled).
	Own string `json:"own,omitempty"`
	// Env: "" (development, the default), production, test.
	Env    string `json:"env,omitempty"`
	Method string `json:"method"`
}

type myErr struct{ msg string }

func (e *myErr) Error() string { return e.msg }

// errors whose dynamic value is the zero value of its type (a stateless
// sentinel, a string-kind error type): non-nil errors all the same
type zeroStructErr struct{}

func (zeroStructErr) Error() string { return "Z:sentinel" }

type stringErr string

func (e stringErr) Error() string { return "S:" + string(e) + ":kind" }

type named string
type namedBytes []byte
type namedCode int
type teapotNamed func() (int, string)

func (c Case) str() string {
	s, err := strconv.Unquote(c.S)
	if err != nil {
		panic(err)
	}
	return s
}

func (c Case) err() error {
	switch c.Err {
	case "new":
		return errors.New("E:" + c.str())
	case "custom":
		return &myErr{"C:" + c.str()}
	case "wrapped":
		return fmt.Errorf("W:%w", errors.New(c.str()))
	case "emptymsg":
		return &myErr{""}
	case "zerostruct":
		return zeroStructErr{}
	case "zerostring":
		return stringErr("")
	case "std":
		return stdErrors[c.Std%len(stdErrors)]
	case "stdwrapped":
		return fmt.Errorf("fetch %s: %w", c.str(), stdErrors[c.Std%len(stdErrors)])
	}
	return nil
}

// stdErrors are error values of the standard library that code likes to
// treat specially; returned by a handler they are errors like any other.
var stdErrors = []error{
	gocontext.Canceled, gocontext.DeadlineExceeded, io.EOF, io.ErrUnexpectedEOF, io.ErrClosedPipe, io.ErrShortWrite,
	http.ErrAbortHandler, http.ErrHandlerTimeout, http.ErrBodyNotAllowed, http.ErrNotSupported, http.ErrNoCookie, http.ErrServerClosed,
	os.ErrNotExist, os.ErrPermission, os.ErrDeadlineExceeded, os.ErrClosed, net.ErrClosed,
	syscall.EPIPE, syscall.ECONNRESET, syscall.ENOENT,
	&net.OpError{Op: "write", Net: "tcp", Err: syscall.EPIPE},
	&os.PathError{Op: "open", Path: "/x", Err: syscall.ENOENT},
	&url.Error{Op: "Get", URL: "http://upstream/", Err: gocontext.Canceled},
	errors.Join(errors.New("a"), gocontext.Canceled),
}

// handler builds the handler and the values it returns.
func (c Case) handler(own func()) (flamego.Handler, []interface{}) {
	s := c.str()
	b := []byte(s)
	if c.Nil {
		b = nil
	}
	e := c.err()
	switch c.Shape {
	case "string":
		return func() string { own(); return s }, []interface{}{s}
	case "bytes":
		return func() []byte { own(); return b }, []interface{}{b}
	case "error":
		return func() error { own(); return e }, []interface{}{e}
	case "ctx_error":
		// func(Context) error: a shape a framework may want to wrap on its own
		return func(flamego.Context) error { own(); return e }, []interface{}{e}
	case "pstring":
		var p *string
		if !c.Nil {
			p = &s
		}
		return func() *string { own(); return p }, []interface{}{p}
	case "named":
		return func() named { own(); return named(s) }, []interface{}{named(s)}
	case "any":
		var v interface{} = s
		if c.Nil {
			v = nil
		}
		return func() interface{} { own(); return v }, []interface{}{v}
	case "pbytes":
		var p *[]byte
		if !c.Nil {
			p = &b
		}
		return func() *[]byte { own(); return p }, []interface{}{p}
	case "any_bytes":
		var v interface{} = b
		return func() interface{} { own(); return v }, []interface{}{v}
	case "named_bytes":
		return func() namedBytes { own(); return namedBytes(b) }, []interface{}{namedBytes(b)}
	case "any_error":
		var v interface{}
		if e != nil {
			v = e
		}
		return func() interface{} { own(); return v }, []interface{}{v}
	case "namedcode_string":
		return func(flamego.Context) (namedCode, string) { own(); return namedCode(c.Code), s }, []interface{}{namedCode(c.Code), s}
	case "int_string":
		// a named func type so that the reflective path is taken
		return func(flamego.Context) (int, string) { own(); return c.Code, s }, []interface{}{c.Code, s}
	case "teapot_fast":
		return func() (int, string) { own(); return c.Code, s }, []interface{}{c.Code, s}
	case "teapot_named":
		return teapotNamed(func() (int, string) { own(); return c.Code, s }), []interface{}{c.Code, s}
	case "int_bytes":
		return func() (int, []byte) { own(); return c.Code, b }, []interface{}{c.Code, b}
	case "int_error":
		return func() (int, error) { own(); return c.Code, e }, []interface{}{c.Code, e}
	case "string_error":
		return func() (string, error) { own(); return s, e }, []interface{}{s, e}
	case "bytes_error":
		return func() ([]byte, error) { own(); return b, e }, []interface{}{b, e}
	}
	panic("harness: shape " + c.Shape)
}

// table is the reference: what the response must be.
func (c Case) table() (status int, body string, written bool) {
	s := c.str()
	if c.Nil {
		s = ""
	}
	e := c.err()
	text := func(v string) (int, string, bool) {
		if v == "" {
			return 0, "", false
		}
		return 200, v, true
	}
	switch c.Shape {
	case "string", "named":
		return text(c.str())
	case "bytes", "pstring", "any", "pbytes", "any_bytes", "named_bytes":
		return text(s)
	case "any_error":
		if e != nil {
			return 500, e.Error(), true
		}
		return 0, "", false
	case "namedcode_string":
		return c.Code, c.str(), true
	case "error", "ctx_error":
		if e != nil {
			return 500, e.Error(), true
		}
		return 0, "", false
	case "int_string", "teapot_fast", "teapot_named":
		return c.Code, c.str(), true
	case "int_bytes":
		return c.Code, s, true
	case "int_error":
		if e != nil {
			return c.Code, e.Error(), true
		}
		return c.Code, "", true
	case "string_error":
		if e != nil {
			return 500, e.Error(), true
		}
		return text(c.str())
	case "bytes_error":
		if e != nil {
			return 500, e.Error(), true
		}
		return text(s)
	}
	panic("harness: shape " + c.Shape)
}

func setEnv(e string) {
	switch e {
	case "production":
		flamego.SetEnv(flamego.EnvTypeProd)
	case "test":
		flamego.SetEnv(flamego.EnvTypeTest)
	default:
		flamego.SetEnv(flamego.EnvTypeDev)
	}
}

func checkCase(c Case) (out evid.Outcome) {
	// the table does not depend on the mode the application runs in
	setEnv(c.Env)
	defer setEnv("")
	if c.Env != "" {
		out.Classes = append(out.Classes, "env:"+c.Env)
	}
	var rw flamego.ResponseWriter
	var cur flamego.Context
	var app *flamego.Flame
	reqCtx, cancelReq := gocontext.WithCancel(gocontext.Background())
	defer cancelReq()
	h, returned := c.handler(func() {
		switch c.Own {
		case "flush":
			rw.Flush()
		case "wh":
			rw.WriteHeader(202)
		case "w":
			_, _ = rw.Write([]byte("own:"))
		case "cancel":
			// the request is given up while the handler is at work (a deadline, a
			// client that went away); what the handler returns is rendered all the
			// same - return values are rendered first, then the chain stops
			cancelReq()
		case "nested":
			// a function registered to run before the first write serves another
			// request on the same application (whose handler returns a string
			// as long as this one's): what this handler returns is still the body
			rw.Before(func(flamego.ResponseWriter) {
				hdr := http.Header{}
				hdr.Set("X-Plain", "1")
				inner := rt.NewSpy()
				app.ServeHTTP(inner, rt.NewRequest("GET", "/nested", hdr))
				if string(inner.Body) != nestedBody(c) {
					panic(fmt.Sprintf("harness: nested request answered %q", inner.Body))
				}
			})
		case "next":
			// the handler has the rest of the chain run first (which writes
			// nothing) and returns its value afterwards
			cur.Next()
		}
	})
	f := flamego.NewWithLogger(io.Discard)
	app = f
	f.Use(func(ctx flamego.Context) {
		if ctx.Request().URL.Path != "/nested" {
			rw, cur = ctx.ResponseWriter(), ctx
		}
	})
	f.Get("/nested", func() string { return nestedBody(c) })
	markerRan := false
	marker := func() { markerRan = true }
	var customGot []reflect.Value
	customCalls := 0
	custom := flamego.ReturnHandler(func(ctx flamego.Context, vals []reflect.Value) {
		if len(vals) == 0 {
			return // (whether a handler that returns nothing is reported here at all is open)
		}
		customCalls++
		customGot = vals
	})
	if c.Custom == "app" {
		f.Map(custom)
	}
	switch c.Pre {
	case "emptystr":
		f.Use(func() string { return "" })
	case "nilerr":
		f.Use(func() error { return nil })
	case "emptybytes":
		f.Use(func() ([]byte, error) { return []byte{}, nil })
	}
	if c.Custom == "request" {
		f.Use(func(ctx flamego.Context) {
			if ctx.Request().Header.Get("X-Plain") == "" {
				ctx.Map(custom)
			}
		})
	}
	switch c.Pos {
	case "use":
		f.Use(h)
		f.Any("/r", marker)
	case "group":
		f.Group("/g", func() { f.Any("/r", marker) }, h)
	case "route":
		f.Any("/r", h, marker)
	case "action":
		f.Any("/r", func() {})
		f.Action(h)
	}
	path := "/r"
	if c.Pos == "group" {
		path = "/g/r"
	}
	spy := rt.NewSpy()
	if len(c.S)%2 == 0 {
		// (half of the cases: an underlying writer with a WriteString method)
		f.ServeHTTP(rt.StringSpy{Spy: spy}, rt.NewRequest(c.Method, path, nil).WithContext(reqCtx))
	} else {
		f.ServeHTTP(spy, rt.NewRequest(c.Method, path, nil).WithContext(reqCtx))
	}
	if c.Custom == "request" && c.Own == "" {
		// the replacement was this request's: the next request, for which nobody
		// maps one, gets the table again
		plain := rt.NewSpy()
		hdr := http.Header{}
		hdr.Set("X-Plain", "1")
		calls := customCalls
		f.ServeHTTP(plain, rt.NewRequest(c.Method, path, hdr))
		ts, tb, _ := c.table()
		if c.Method == "HEAD" {
			tb = ""
		}
		if customCalls != calls || plain.Status() != ts || string(plain.Body) != tb {
			return evid.Fail("custom-leaks", "a ReturnHandler mapped by an earlier request is still in effect: second request status %d body %q (custom handler called %d more times), the table gives %d %q; %s", plain.Status(), plain.Body, customCalls-calls, ts, tb, js(c))
		}
	}

	wantStatus, wantBody, wantWritten := c.table()
	// (what the response looks like when the returned value contributes nothing:
	// the handler's own output alone, and the chain going on where it would)
	ownStatus, ownBody, ownMarker := 0, "", true
	switch c.Own {
	case "flush":
		ownStatus, ownMarker = 200, false
	case "wh":
		ownStatus, ownMarker = 202, false
	case "w":
		ownStatus, ownBody, ownMarker = 200, "own:", false
	case "cancel":
		ownMarker = false
	}
	if c.Method == "HEAD" {
		ownBody = ""
	}
	if namedShape := c.Shape == "named" || c.Shape == "named_bytes" || c.Shape == "namedcode_string"; namedShape && c.Custom == "" && spy.Status() == ownStatus && string(spy.Body) == ownBody && (markerRan == ownMarker || c.Pos == "action") {
		// a value of a *named* string / byte-slice / int type is not literally
		// "a string, a byte slice, an int": treating it as its underlying kind
		// (what the table above says) or as no renderable value at all (nothing
		// written, the chain goes on) are both accepted
		out.Classes = append(out.Classes, "named-type-not-rendered", "shape:"+c.Shape)
		out.NonTrivial = true
		return out
	}
	if c.Custom != "" {
		wantStatus, wantBody, wantWritten = 0, "", false
	}
	// What the handler did to the response itself comes first; the values it
	// returns are rendered all the same (only the status line is taken by then).
	switch c.Own {
	case "flush":
		wantStatus, wantWritten = 200, true
	case "wh":
		wantStatus, wantWritten = 202, true
	case "w":
		wantStatus, wantBody, wantWritten = 200, "own:"+wantBody, true
	}
	if c.Method == "HEAD" {
		wantBody = ""
	}
	desc := js(c)
	if c.Custom != "" {
		wantCalls := 1
		if c.Pre != "" && c.Custom == "app" {
			wantCalls = 2 // the value returned by the handler in front goes there too
		}
		if customCalls != wantCalls {
			return evid.Fail("custom-calls", "custom ReturnHandler called %d times, want %d, for %s", customCalls, wantCalls, desc)
		}
		if len(customGot) != len(returned) {
			return evid.Fail("custom-values", "custom ReturnHandler received %d values, handler returned %d: %s", len(customGot), len(returned), desc)
		}
		for i, v := range customGot {
			if !v.IsValid() {
				// what reflect.Value.Call hands back is always a valid Value (a nil
				// error is a valid Value of type error): a ReturnHandler may rely on it
				return evid.Fail("custom-values", "custom ReturnHandler received an invalid reflect.Value as value %d; %s", i, desc)
			}
			got := v.Interface()
			if isNil(got) {
				got = nil
			}
			want := returned[i]
			if isNil(want) {
				want = nil
			}
			if !reflect.DeepEqual(got, want) {
				// pointers compare by identity, which DeepEqual covers for equal pointees too
				return evid.Fail("custom-values", "custom ReturnHandler value %d = %#v, handler returned %#v: %s", i, got, want, desc)
			}
		}
	}
	if spy.Status() != wantStatus {
		return evid.Fail("status:"+c.Shape, "status %d, table gives %d (all status lines %v) for %s", spy.Status(), wantStatus, spy.Codes, desc)
	}
	if string(spy.Body) != wantBody {
		return evid.Fail("body:"+c.Shape, "body %q, table gives %q for %s", spy.Body, wantBody, desc)
	}
	if len(spy.Codes) > 1 {
		return evid.Fail("two-status-lines", "the underlying writer received status lines %v for %s", spy.Codes, desc)
	}
	if len(spy.Log) > 0 && spy.Log[0][:2] != "WH" {
		return evid.Fail("body-before-status", "calls on the underlying writer: %v for %s", spy.Log, desc)
	}
	if c.Own == "next" {
		if !markerRan && c.Pos != "action" {
			return evid.Fail("continuation:"+c.Shape, "the handler called Next() and the following handler did not run, for %s", desc)
		}
	} else if c.Own == "cancel" {
		if markerRan {
			return evid.Fail("continuation:"+c.Shape, "the following handler ran although the request context had been cancelled, for %s", desc)
		}
	} else if c.Pos != "action" {
		if markerRan == wantWritten {
			return evid.Fail("continuation:"+c.Shape, "the following handler ran=%v although the response written=%v for %s", markerRan, wantWritten, desc)
		}
	}

	// classification
	nt := false
	if !wantWritten || c.Nil || c.str() == "" {
		nt = true
		out.Classes = append(out.Classes, "empty-or-nil")
	}
	if c.Err == "nil" && (c.Shape == "int_error" || c.Shape == "string_error" || c.Shape == "bytes_error") {
		nt = true
		out.Classes = append(out.Classes, "nil-error-in-pair")
	}
	if c.Shape == "pstring" || c.Shape == "any" {
		nt = true
		out.Classes = append(out.Classes, "pointer-or-interface")
	}
	if wantStatus != 200 && wantStatus != 0 {
		nt = true
		out.Classes = append(out.Classes, "non-200")
	}
	if c.Pos != "route" {
		nt = true
		out.Classes = append(out.Classes, "pos:"+c.Pos)
	}
	if c.Custom != "" {
		nt = true
		out.Classes = append(out.Classes, "custom-return-handler")
	}
	if c.Pre != "" {
		nt = true
		out.Classes = append(out.Classes, "value-returned-earlier-in-chain")
	}
	if len(c.S)%2 == 0 {
		out.Classes = append(out.Classes, "underlying-writer-with-WriteString")
	}
	if c.Own != "" {
		out.Classes = append(out.Classes, "own:"+c.Own)
		nt = true
		if c.Own != "cancel" && c.Own != "next" && c.Own != "nested" {
			out.Classes = append(out.Classes, "handler-wrote-before-returning")
		}
	}
	out.Classes = append(out.Classes, "shape:"+c.Shape)
	out.NonTrivial = nt
	return out
}

// nestedBody is what the nested request of own-action "nested" is answered with.
func nestedBody(c Case) string {
	n := len(c.str())
	if n == 0 {
		n = 1
	}
	if n > 4096 {
		n = 4096
	}
	return strings.Repeat("~", n)
}

func isNil(v interface{}) bool {
	if v == nil {
		return true
	}
	rv := reflect.ValueOf(v)
	switch rv.Kind() {
	case reflect.Ptr, reflect.Slice, reflect.Interface:
		return rv.IsNil()
	}
	return false
}

func js(v interface{}) string {
	b, _ := json.Marshal(v)
	return string(b)
}

var shapes = []string{"pbytes", "any_bytes", "named_bytes", "any_error", "namedcode_string", "string", "bytes", "error", "ctx_error", "pstring", "named", "any", "int_string", "teapot_fast", "teapot_named", "int_bytes", "int_error", "string_error", "bytes_error"}

func genCase(t *rapid.T) Case {
	c := Case{
		Shape:  shapes[rapid.IntRange(0, len(shapes)-1).Draw(t, "shape")],
		Code:   []int{200, 201, 204, 301, 404, 418, 500, 503, 100, 999}[rapid.IntRange(0, 9).Draw(t, "code")],
		Pos:    []string{"route", "route", "use", "group", "action"}[rapid.IntRange(0, 4).Draw(t, "pos")],
		Custom: []string{"", "", "", "app", "request"}[rapid.IntRange(0, 4).Draw(t, "custom")],
		Method: []string{"GET", "GET", "GET", "HEAD"}[rapid.IntRange(0, 3).Draw(t, "method")],
		Pre:    []string{"", "", "emptystr", "nilerr", "emptybytes"}[rapid.IntRange(0, 4).Draw(t, "pre")],
		Own:    []string{"", "", "", "flush", "wh", "w", "cancel", "next", "nested"}[rapid.IntRange(0, 8).Draw(t, "own")],
		Env:    []string{"", "", "production", "test"}[rapid.IntRange(0, 3).Draw(t, "env")],
	}
	if rapid.IntRange(0, 9).Draw(t, "anycode") == 0 {
		c.Code = rapid.IntRange(100, 999).Draw(t, "rawcode")
	}
	var s string
	switch rapid.IntRange(0, 4).Draw(t, "sk") {
	case 0:
		s = ""
	case 1:
		s = string(rapid.SliceOfN(rapid.Byte(), 0, 20).Draw(t, "raw"))
	default:
		s = rapid.StringMatching(`[a-zA-Z0-9 <>&%\n]{0,12}`).Draw(t, "s")
	}
	c.S = strconv.QuoteToASCII(gen.Big(t, s))
	c.Nil = rapid.IntRange(0, 3).Draw(t, "nil") == 0
	c.Err = []string{"nil", "nil", "new", "custom", "wrapped", "emptymsg", "zerostruct", "zerostring", "std", "stdwrapped"}[rapid.IntRange(0, 9).Draw(t, "err")]
	if c.Err == "std" || c.Err == "stdwrapped" {
		c.Std = rapid.IntRange(0, len(stdErrors)-1).Draw(t, "std")
	}
	if c.Own == "nested" {
		// (the nested request must not come by the handler under test or a custom
		// ReturnHandler itself)
		c.Custom = ""
		if c.Pos == "use" || c.Pos == "action" {
			c.Pos = "route"
		}
	}
	return c
}

func TestProp(t *testing.T) {
	evid.Rapid(t, "return", 6000, 300000, func(t *rapid.T) {
		c := genCase(t)
		evid.Run(t, "return", c, func() evid.Outcome { return checkCase(c) })
	})
}

// TestFastVsReflective runs the same values through the fast path and the
// reflective path and compares the spies byte for byte.
func TestFastVsReflective(t *testing.T) {
	evid.Rapid(t, "fast-vs-reflective", 2000, 30000, func(t *rapid.T) {
		c := genCase(t)
		c.Custom = ""
		a, b := c, c
		a.Shape, b.Shape = "teapot_fast", "teapot_named"
		type pair struct{ A, B Case }
		evid.Run(t, "fast-vs-reflective", pair{a, b}, func() evid.Outcome {
			oa, ob := checkCase(a), checkCase(b)
			if oa.Violation != "" {
				return oa
			}
			if ob.Violation != "" {
				return ob
			}
			oa.Classes = []string{"fast-vs-reflective"}
			return oa
		})
	})
}

func TestPinned(t *testing.T) {
	q := strconv.Quote
	cases := []Case{
		{Shape: "bytes", S: q(""), Pos: "route", Method: "GET", Err: "nil"},
		{Shape: "pstring", S: q(""), Pos: "route", Method: "GET", Err: "nil"},
		{Shape: "string", S: q("string"), Pos: "route", Method: "GET", Err: "nil"},
		{Shape: "int_error", S: q("x"), Code: 418, Pos: "route", Method: "GET", Err: "nil"},
		{Shape: "int_error", S: q("x"), Code: 418, Pos: "route", Method: "GET", Err: "new"},
		{Shape: "string_error", S: q("x"), Pos: "route", Method: "GET", Err: "custom"},
		{Shape: "teapot_fast", S: q("i'm a teapot"), Code: 418, Pos: "route", Method: "GET", Err: "nil"},
	}
	for _, c := range cases {
		c := c
		evid.Run(t, "return", c, func() evid.Outcome { return checkCase(c) })
	}
}

func TestReplay(t *testing.T) {
	evid.Replay(t, map[string]evid.ReplayFn{
		"return": func(raw json.RawMessage) evid.Outcome {
			var c Case
			if err := json.Unmarshal(raw, &c); err != nil {
				panic(err)
			}
			return checkCase(c)
		},
		"fast-vs-reflective": func(raw json.RawMessage) evid.Outcome {
			var p struct{ A, B Case }
			if err := json.Unmarshal(raw, &p); err != nil {
				panic(err)
			}
			if o := checkCase(p.A); o.Violation != "" {
				return o
			}
			return checkCase(p.B)
		},
	})
}
