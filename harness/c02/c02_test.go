// Package c02 decides property C02: bind parameters are exactly the substrings
// the winning route's pattern captured, decoded once; substituting them back
// reproduces the path; `route` is the canonical text of the matched route.
package c02

import (
	"encoding/json"
	"fmt"
	"regexp"
	"strings"
	"testing"

	"pgregory.net/rapid"

	"github.com/flamego/flamego/internal/route"
	"github.com/flamego/flamego/verifharness/internal/evid"
	"github.com/flamego/flamego/verifharness/internal/gen"
	"github.com/flamego/flamego/verifharness/internal/model"
	"github.com/flamego/flamego/verifharness/internal/rt"
)

const rule = "case = a valid route set biased to binds (regex segments with several binds, user groups, metacharacter literals, multi-parameter lists, match-alls) plus 1..12 requests built from route instances (values with %-escapes, malformed escapes, blanks, empty segments; one request in four also carries an over-escaped URL.RawPath spelling of the same path). " +
	"For every dispatched request the values must satisfy a validity predicate against the route that actually won: some alignment of route segments to path segments and some split of each regex segment exists in which literals match literally, every piece matches its own expression in full and decodes (once) to the reported value; " +
	"Leaf.URLPath(values, form) must rebuild the decoded path, and the Flame-level params must equal the tree-level ones plus route=<canonical text>. " +
	"non-trivial = a case with a dispatched request whose winner has a bind and (>=2 binds in one segment, or a user group, or a metacharacter literal next to a bind, or an escape inside a captured piece, or a match-all spanning >=2 segments); distinct by case text"

var assumptions = []string{
	"user expressions come from a pool without look-around assertions (\\b, \\A, \\z)",
	"an in-segment {name} admits any non-empty text without newline",
	"parameters left behind by abandoned alternatives are allowed (documented on Tree.Match); only the binds of the winning route are checked",
}

func TestMain(m *testing.M) { evid.Main(m, "C02", rule, assumptions) }

type Case struct {
	Regs []rt.Reg `json:"routes"`
	Reqs []rt.Req `json:"requests"`
}

// piece is one captured piece of an alignment.
type alignment struct {
	rebuilt []string // rebuilt path segments (literals + decoded values)
	flags   map[string]bool
}

var exprCache = map[string]*regexp.Regexp{}

func fullMatch(expr, s string) bool {
	re, ok := exprCache[expr]
	if !ok {
		re = regexp.MustCompile(`^(?:` + expr + `)$`)
		exprCache[expr] = re
	}
	return re.MatchString(s)
}

// alignSeg tries to explain one regex segment: elems against raw text.
func alignRegex(elems []model.Elem, raw string, vals map[string]string, acc *strings.Builder, flags map[string]bool) bool {
	if len(elems) == 0 {
		return raw == ""
	}
	e := elems[0]
	switch {
	case e.Params == nil && e.Bind == "":
		if !strings.HasPrefix(raw, e.Lit) {
			return false
		}
		n := acc.Len()
		acc.WriteString(e.Lit)
		if alignRegex(elems[1:], raw[len(e.Lit):], vals, acc, flags) {
			return true
		}
		trunc(acc, n)
		return false
	case e.Bind != "":
		return alignPiece(e.Bind, ".+", elems[1:], raw, vals, acc, flags)
	default:
		// a parameter list is a sequence of binds
		rest := elems[1:]
		if len(e.Params) > 1 {
			tail := model.Elem{Params: e.Params[1:]}
			rest = append([]model.Elem{tail}, rest...)
		}
		return alignPiece(e.Params[0].Name, e.Params[0].Value, rest, raw, vals, acc, flags)
	}
}

func alignPiece(name, expr string, rest []model.Elem, raw string, vals map[string]string, acc *strings.Builder, flags map[string]bool) bool {
	want, ok := vals[name]
	if !ok {
		return false
	}
	for l := 0; l <= len(raw); l++ {
		p := raw[:l]
		if model.Decode1(p) != want {
			continue
		}
		if strings.Contains(p, "\n") || !fullMatch(expr, p) {
			continue
		}
		n := acc.Len()
		acc.WriteString(want)
		if alignRegex(rest, raw[l:], vals, acc, flags) {
			if strings.Contains(p, "%") {
				flags["escape-in-piece"] = true
			}
			return true
		}
		trunc(acc, n)
	}
	return false
}

func trunc(b *strings.Builder, n int) {
	s := b.String()[:n]
	b.Reset()
	b.WriteString(s)
}

// align explains route segments segs against raw path segments ps using the
// reported values.
func align(segs []model.Seg, ps []string, vals map[string]string, rebuilt []string, flags map[string]bool) ([]string, bool) {
	if len(segs) == 0 {
		if len(ps) == 0 {
			return rebuilt, true
		}
		return nil, false
	}
	if len(ps) == 0 {
		return nil, false
	}
	s := segs[0]
	k, binds, capture := s.Classify()
	switch k {
	case model.KStatic:
		lit := ""
		if len(s.Elems) == 1 {
			lit = s.Elems[0].Lit
		}
		if ps[0] != lit {
			return nil, false
		}
		return align(segs[1:], ps[1:], vals, append(rebuilt, lit), flags)
	case model.KPlaceholder:
		v, ok := vals[binds[0]]
		if !ok || model.Decode1(ps[0]) != v {
			return nil, false
		}
		if r, ok := align(segs[1:], ps[1:], vals, append(rebuilt, v), flags); ok {
			if strings.Contains(ps[0], "%") {
				flags["escape-in-piece"] = true
			}
			return r, true
		}
		return nil, false
	case model.KMatchAll:
		v, ok := vals[binds[0]]
		if !ok {
			return nil, false
		}
		for n := 1; n <= len(ps); n++ {
			if capture > 0 && n > capture {
				break
			}
			joined := strings.Join(ps[:n], "/")
			if model.Decode1(joined) != v {
				continue
			}
			if r, ok := align(segs[1:], ps[n:], vals, append(rebuilt, v), flags); ok {
				if n >= 2 {
					flags["matchall-multi"] = true
				}
				if strings.Contains(joined, "%") {
					flags["escape-in-piece"] = true
				}
				return r, true
			}
		}
		return nil, false
	case model.KRegex:
		var acc strings.Builder
		if !alignRegex(s.Elems, ps[0], vals, &acc, flags) {
			return nil, false
		}
		return align(segs[1:], ps[1:], vals, append(rebuilt, acc.String()), flags)
	}
	return nil, false
}

func routeFlags(d model.Route, flags map[string]bool) {
	for _, s := range d.Segs {
		k, binds, _ := s.Classify()
		if len(binds) > 0 {
			flags["has-bind"] = true
		}
		if k == model.KRegex {
			if len(binds) >= 2 {
				flags["multi-bind-segment"] = true
			}
			for _, x := range s.Exprs() {
				if strings.Contains(x, "(") {
					flags["user-group"] = true
				}
			}
			for _, e := range s.Elems {
				if e.Lit != "" && regexp.QuoteMeta(e.Lit) != e.Lit {
					flags["metachar-literal"] = true
				}
				if len(e.Params) > 1 {
					flags["param-list"] = true
				}
			}
		}
	}
}

// pieceOf reports whether v is some substring of the path, decoded once.
func pieceOf(path, v string) bool {
	if strings.Contains(path, v) {
		return true
	}
	for i := 0; i < len(path); i++ {
		for j := i + 1; j <= len(path); j++ {
			if model.Decode1(path[i:j]) == v {
				return true
			}
		}
	}
	return false
}

func checkCase(c Case) evid.Outcome {
	out := evid.Outcome{Sub: len(c.Reqs)}
	trees, leaves, _, err := rt.Trees(c.Regs)
	if err != nil {
		out.Excluded = 1
		out.Classes = append(out.Classes, "registration-rejected")
		return out
	}
	app, _, perr := rt.NewApp(c.Regs)
	if perr != nil {
		// (the tree took the set, the Flame did not: C08 / C01 report that)
		out.Excluded = 1
		out.Classes = append(out.Classes, "flame-registration-rejected")
		return out
	}
	for _, q := range c.Reqs {
		if strings.Contains(q.P, "\n") {
			out.Excluded++
			continue
		}
		tree := trees[q.M]
		if tree == nil {
			continue
		}
		leaf, params, ok := tree.Match(q.P, nil)
		if !ok {
			out.Classes = append(out.Classes, "not-found")
			continue
		}
		// which registration won, according to the real code
		win := -1
		for i := range c.Regs {
			if leaves[i][q.M] != nil && leafSame(leaves[i][q.M], leaf) {
				win = i
			}
		}
		if win < 0 {
			// the short-form leaf is a different object: identify by route text
			for i, g := range c.Regs {
				if leaves[i][q.M] != nil && rt.Deriv(g.R).Canon() == leaf.Route() {
					win = i
				}
			}
		}
		if win < 0 {
			return evid.Fail("unknown-leaf", "%s %q matched a leaf with route %q that no registration of the case has; routes %v", q.M, q.P, leaf.Route(), c.Regs)
		}
		d := rt.Deriv(c.Regs[win].R)
		flags := map[string]bool{}
		routeFlags(d, flags)
		ps := model.SplitPath(q.P)
		vals := map[string]string(params)

		type formTry struct {
			segs []model.Seg
			opt  bool
		}
		tries := []formTry{{d.Segs, true}}
		if n := len(d.Segs); d.Segs[n-1].Optional {
			short := d.Segs[:n-1]
			if n == 1 {
				short = []model.Seg{{}}
			}
			tries = append(tries, formTry{short, false})
		}
		explained := false
		var explainedBy []model.Seg
		urlOK := false
		var firstRebuilt string
		var urlGot string
		for _, ft := range tries {
			fl := map[string]bool{}
			rebuilt, ok := align(ft.segs, ps, vals, nil, fl)
			if !ok {
				continue
			}
			if !explained {
				explainedBy = ft.segs
			}
			explained = true
			for k := range fl {
				flags[k] = true
			}
			if !ft.opt {
				flags["optional-short"] = true
			}
			want := strings.Join(rebuilt, "/")
			if firstRebuilt == "" {
				firstRebuilt = want
			}
			// only the binds of the winning route are supplied
			own := map[string]string{}
			for _, s := range d.Segs {
				_, binds, _ := s.Classify()
				for _, b := range binds {
					if v, ok := vals[b]; ok {
						own[b] = v
					}
				}
			}
			urlGot = leaf.URLPath(own, ft.opt)
			if strings.TrimLeft(urlGot, "/") == strings.TrimLeft(want, "/") {
				urlOK = true
				break
			}
		}
		if !explained {
			return evid.Fail("values", "%s %q won by %q with params %s: no alignment exists in which every value is the once-decoded piece its own pattern captured", q.M, q.P, leaf.Route(), rt.Show(vals))
		}
		// "exactly the captured substrings": a key that the form which matched does
		// not bind may only be what an alternative the matcher tried and gave up
		// left behind (the declared reading) - the bind of another route of that
		// method, holding a once-decoded piece of this path. The binds of an
		// optional segment that took no part are not among them.
		bound := map[string]bool{}
		for _, sg := range explainedBy {
			_, binds, _ := sg.Classify()
			for _, b := range binds {
				bound[b] = true
			}
		}
		elsewhere := map[string]bool{}
		for i, g := range c.Regs {
			if i == win || leaves[i][q.M] == nil {
				continue
			}
			for _, sg := range rt.Deriv(g.R).Segs {
				_, binds, _ := sg.Classify()
				for _, b := range binds {
					elsewhere[b] = true
				}
			}
		}
		for k, v := range vals {
			if bound[k] {
				continue
			}
			if !elsewhere[k] {
				return evid.Fail("undeclared-key", "%s %q won by %q (form %s): parameter %s=%q is bound neither by the form that matched nor by any other route of that method; all: %s", q.M, q.P, leaf.Route(), model.Route{Segs: explainedBy}.Canon(), k, v, rt.Show(vals))
			}
			out.Classes = append(out.Classes, "leftover-key")
			if len(q.P) <= 300 && !pieceOf(q.P, v) {
				return evid.Fail("leftover-not-a-piece", "%s %q won by %q: leftover parameter %s=%q is not a once-decoded piece of the path; all: %s", q.M, q.P, leaf.Route(), k, v, rt.Show(vals))
			}
		}
		// (a value that spells a bind of the route - "{b}" captured by {a} - is
		// substituted like any other: what has been put in is not looked at again)
		for k, v := range vals {
			if bound[k] && strings.Contains(v, "{") {
				out.Classes = append(out.Classes, "roundtrip-with-a-value-that-spells-a-bind")
			}
		}
		if !urlOK {
			return evid.Fail("roundtrip", "%s %q won by %q with params %s: URLPath gives %q, substituting the values back gives %q", q.M, q.P, leaf.Route(), rt.Show(vals), urlGot, firstRebuilt)
		}
		if leaf.Route() != d.Canon() {
			return evid.Fail("route-text", "leaf.Route() = %q, canonical text is %q", leaf.Route(), d.Canon())
		}

		// Flame level: same values plus the reserved parameter
		hit := app.Serve(q)
		if hit.Panic != nil {
			return evid.Fail("serve-panic", "ServeHTTP panicked on %s %q: %v", q.M, q.P, hit.Panic)
		}
		if hit.Handler != win {
			return evid.Fail("tree-vs-flame", "%s %q: tree matched registration #%d (%q) but ServeHTTP ran #%d", q.M, q.P, win, c.Regs[win].R, hit.Handler)
		}
		if hit.Params["route"] != d.Canon() {
			return evid.Fail("route-param", "%s %q: parameter route = %q, canonical text of the matched route is %q", q.M, q.P, hit.Params["route"], d.Canon())
		}
		for _, s := range d.Segs {
			_, binds, _ := s.Classify()
			for _, b := range binds {
				if b == "route" {
					continue // the reserved name: the handler sees the route text instead
				}
				tv, tok := vals[b]
				fv, fok := hit.Params[b]
				if tok != fok || tv != fv {
					return evid.Fail("tree-vs-flame-params", "%s %q: bind %q is %q (present=%v) in Tree.Match but %q (present=%v) in the handler", q.M, q.P, b, tv, tok, fv, fok)
				}
			}
		}

		out.Classes = append(out.Classes, "dispatched")
		nt := flags["has-bind"] && (flags["multi-bind-segment"] || flags["user-group"] || flags["metachar-literal"] || flags["escape-in-piece"] || flags["matchall-multi"])
		if nt {
			out.NonTrivial = true
		}
		for k := range flags {
			out.Classes = append(out.Classes, k)
		}
	}
	return out
}

func leafSame(a, b route.Leaf) bool { return a == b }

func TestProp(t *testing.T) {
	evid.Rapid(t, "params", 4000, 60000, func(t *rapid.T) {
		pool := gen.SegPoolW(t, 6, rapid.IntRange(0, 2).Draw(t, "wildspacing") == 0, [3]int{15, 35, 85}) // one set in three is spelled with 0..3 blanks after ":" and ","
		opts := gen.SetOpts{MaxRoutes: 6, Route: gen.RouteOpts{SegmentPool: pool}}
		if evid.Thorough() {
			opts.MaxRoutes, opts.Route.MaxSegs = 10, 6
		}
		regs, _ := gen.RouteSet(t, opts)
		if rapid.IntRange(0, 5).Draw(t, "reservedname") == 0 {
			// a route whose bind is literally named "route": the router accepts
			// it; whether it is matched or tried and abandoned, handlers must
			// still see route = canonical text of the route that served
			extra := rt.Reg{M: "GET", R: []string{"/{route}/zzedit", "/{route}", "/zz/{route: **}"}[rapid.IntRange(0, 2).Draw(t, "rn")]}
			g := model.NewRegistrar()
			ok := true
			for _, r := range regs {
				for _, m := range model.ExpandMethod(r.M) {
					g.Add(m, rt.Deriv(r.R))
				}
			}
			if v, _ := g.Check("GET", rt.Deriv(extra.R)); v == model.MustReject {
				ok = false
			}
			if ok {
				regs = append([]rt.Reg{extra}, regs...)
			}
		}
		c := Case{Regs: regs, Reqs: gen.Requests(t, regs, 12)}
		evid.Run(t, "params", c, func() evid.Outcome { return checkCase(c) })
	})
}

// TestDocumented replays the repository's own documented examples plus the
// shapes behind the fixed findings as plain regression cases.
func TestDocumented(t *testing.T) {
	cases := []Case{
		{Regs: []rt.Reg{{M: "GET", R: `/{a: /(x|y)z/}-{b: /[0-9]+/}`}}, Reqs: []rt.Req{{M: "GET", P: "/xz-12"}}},
		{Regs: []rt.Reg{{M: "GET", R: `/{a: /(x|y)z/}/k`}}, Reqs: []rt.Req{{M: "GET", P: "/xz/k"}}},
		{Regs: []rt.Reg{{M: "GET", R: `/a+b{x}`}}, Reqs: []rt.Req{{M: "GET", P: "/a+bq"}, {M: "GET", P: "/aabq"}}},
		{Regs: []rt.Reg{{M: "GET", R: `/{y: /[0-9]{4}/, m: /[0-9]{2}/}`}}, Reqs: []rt.Req{{M: "GET", P: "/202105"}}},
		{Regs: []rt.Reg{{M: "GET", R: `/webapi/projects/{name}/commit/{sha: /[a-z0-9]{7,40}/}{ext: /(\.(patch|diff))?/}`}}, Reqs: []rt.Req{{M: "GET", P: "/webapi/projects/flamego/commit/368c7b2d0b1e0b243b2.patch"}}},
		{Regs: []rt.Reg{{M: "GET", R: `/webapi/special/vars/{var}`}}, Reqs: []rt.Req{{M: "GET", P: "/webapi/special/vars/%E4%BD%A0%E5%A5%BD"}, {M: "GET", P: "/webapi/special/vars/%_"}}},
	}
	for _, c := range cases {
		c := c
		evid.Run(t, "params", c, func() evid.Outcome { return checkCase(c) })
	}
}

func TestReplay(t *testing.T) {
	evid.Replay(t, map[string]evid.ReplayFn{
		"params": func(raw json.RawMessage) evid.Outcome {
			var c Case
			if err := json.Unmarshal(raw, &c); err != nil {
				panic(err)
			}
			return checkCase(c)
		},
	})
}

var _ = fmt.Sprintf
