// Package c10 decides property C10: the shortcut table for fully static routes
// is unobservable - after any history of registrations, Headers() calls and
// requests, every request's outcome equals what full tree matching gives.
package c10

import (
	"encoding/json"
	"fmt"
	"io"
	"net/http"
	"net/http/httptest"
	"regexp"
	"strings"
	"testing"

	"pgregory.net/rapid"

	"github.com/flamego/flamego"
	"github.com/flamego/flamego/internal/route"
	"github.com/flamego/flamego/verifharness/internal/evid"
	"github.com/flamego/flamego/verifharness/internal/gen"
	"github.com/flamego/flamego/verifharness/internal/model"
	"github.com/flamego/flamego/verifharness/internal/rt"
)

const rule = "case = a history of 3..25 operations over one Flame and, per method, one mirror route.Tree populated identically: register(static - over literals that include pairs differing in letter case only; now and then one of 60..72 segments - | optional-static | dynamic route over the same literals | a registered route with one segment replaced by a bind, which shadows it; through Route, Routes (comma lists, in any case), Get while AutoHead is on, or Any; one time in five inside Group(\"\", ...), constrained with Headers() right there every second time), headers(route, pairs) mirrored with SetHeaderMatcher, AutoHead switched on or off for good, request(method, path, headers) with paths = route instances, the route text itself used as a path, extra leading slashes, trailing slashes, the once-decoded spelling of a path with escapes, optionally an over-escaped URL.RawPath, HEAD for GET routes, method+path strings cut at another place. " +
	"Oracle (differential, after every request): handler that ran / not-found and parameters from Flame.ServeHTTP == Tree.Match on the mirror (requests whose method is not in the standard upper-case spelling are only held to: not both a route handler and the not-found chain). " +
	"non-trivial = a history with a request answered by a fully static, unconstrained route (the shortcut's domain) after >=2 registrations, or a request whose path contains route-syntax characters ('?', '{'), or a request that follows a headers operation on a static route; distinct by case text"

var assumptions = []string{
	"histories contain only registrations the statement of C08 obliges the router to accept",
	"the mirror tree is the same matcher code without the router in front of it (that is the differential the property states); the reference matcher is consulted too, but a difference between it and the tree is only recorded as a class (it would be a matter of C01 / C09, not of the shortcut)",
}

func TestMain(m *testing.M) { evid.Main(m, "C10", rule, assumptions) }

type Op struct {
	K string      `json:"op"` // reg | hdr | req | autohead
	M string      `json:"m,omitempty"`
	R string      `json:"route,omitempty"`
	I int         `json:"i,omitempty"` // hdr: index of the registration
	H []string    `json:"pairs,omitempty"`
	P string      `json:"path,omitempty"`
	Q [][2]string `json:"headers,omitempty"`
	// W: spelling on the wire (rt.Req.Wire)
	W string `json:"wire,omitempty"`
	// On (autohead): the value AutoHead is set to from here on.
	On bool `json:"on,omitempty"`
	// InGroup (reg): the route is declared inside Group("", ...) - the path is
	// what it is - and, when Pairs are given, constrained with Headers() right
	// there, before the group function returns.
	InGroup bool `json:"declared_inside_group,omitempty"`
}

type Case struct {
	Ops []Op `json:"ops"`
}

type regState struct {
	m      string
	r      string
	fr     *flamego.Route
	leaves map[string]route.Leaf
	hdr    []string
}

func checkCase(c Case) (out evid.Outcome) {
	f := flamego.NewWithLogger(io.Discard)
	ran, nf := -1, false
	var got map[string]string
	f.NotFound(func(ctx flamego.Context) { nf = true; ctx.ResponseWriter().WriteHeader(404) })
	trees := map[string]route.Tree{}
	var regs []*regState
	sawHdrOnStatic := false
	autoHead := false
	// blind: a registration for several methods was refused half way; which of
	// its methods stand is not known to the mirror any more. From then on a
	// request is held against the same request with one more leading slash,
	// which never takes the shortcut.
	blind := false
	ranUID := -1
	for step, op := range c.Ops {
		switch op.K {
		case "autohead":
			// switched on or off for good: no request is affected, and while it is
			// on the histories declare GET through Get / Any only
			autoHead = op.On
			f.AutoHead(op.On)
			out.Classes = append(out.Classes, "autohead-switched")
		case "reg":
			idx := len(regs)
			rs := &regState{m: op.M, r: op.R, leaves: map[string]route.Leaf{}}
			perr := func() (err interface{}) {
				defer func() { err = recover() }()
				uid := step
				hf := func(ctx flamego.Context) {
					ran = idx
					ranUID = uid
					got = map[string]string{}
					for k, v := range ctx.Params() {
						got[k] = v
					}
					// a handler may use its parameter map as scratch space; that
					// must not leak into any later request
					// (only where the route has binds, so that the map is this
					// request's own by necessity)
					if len(ctx.Params()) > 1 {
						ctx.Params()["zz-scratch"] = fmt.Sprint(idx)
					}
					ctx.ResponseWriter().WriteHeader(200)
				}
				declare := func() {
					defer func() {
						if rs.fr != nil && op.InGroup && op.H != nil {
							rs.fr.Headers(op.H...)
						}
					}()
					switch op.M {
					case "autohead-get":
						f.AutoHead(true)
						defer func() { f.AutoHead(autoHead) }()
						rs.fr = f.Get(op.R, hf)
						return
					case "any":
						rs.fr = f.Any(op.R, hf)
						return
					}
					if strings.Contains(op.M, ",") {
						// a comma list goes through Routes()
						rs.fr = f.Routes(op.R, op.M, hf)
						return
					}
					rs.fr = f.Route(op.M, op.R, []flamego.Handler{hf})
				}
				if op.InGroup {
					f.Group("", declare)
				} else {
					declare()
				}
				return nil
			}()
			if perr != nil {
				out.Excluded++
				out.Classes = append(out.Classes, "registration-rejected")
				if len(expand(op.M)) == 1 {
					// refused as a whole: the history goes on without it
					continue
				}
				blind = true // (it may have been taken for some of its methods)
				out.Classes = append(out.Classes, "refused-half-way")
				continue
			}
			ast, err := rt.Parse(op.R)
			if err != nil {
				panic("harness: " + err.Error())
			}
			for _, m := range expand(op.M) {
				if trees[m] == nil {
					trees[m] = route.NewTree()
				}
				leaf, err := route.AddRoute(trees[m], ast, nil)
				if err != nil {
					return evid.Fail("mirror-registration", "step %d: Flame accepted %s %q but route.AddRoute on the mirror failed: %v", step, op.M, op.R, err)
				}
				rs.leaves[m] = leaf
			}
			regs = append(regs, rs)
			if op.InGroup {
				out.Classes = append(out.Classes, "declared-inside-group")
				if op.H != nil {
					rs.hdr = op.H
					matches := map[string]*regexp.Regexp{}
					for i := 1; i < len(op.H); i += 2 {
						matches[op.H[i-1]] = regexp.MustCompile(op.H[i])
					}
					for _, leaf := range rs.leaves {
						leaf.SetHeaderMatcher(route.NewHeaderMatcher(matches))
					}
					if isStatic(rs.r) {
						sawHdrOnStatic = true
					}
				}
			}
		case "hdr":
			if len(regs) == 0 {
				continue
			}
			rs := regs[op.I%len(regs)]
			rs.fr.Headers(op.H...)
			rs.hdr = op.H
			matches := map[string]*regexp.Regexp{}
			for i := 1; i < len(op.H); i += 2 {
				matches[op.H[i-1]] = regexp.MustCompile(op.H[i])
			}
			for _, leaf := range rs.leaves {
				leaf.SetHeaderMatcher(route.NewHeaderMatcher(matches))
			}
			if isStatic(rs.r) {
				sawHdrOnStatic = true
			}
		case "req":
			out.Sub++
			hdr := http.Header{}
			for _, kv := range op.Q {
				hdr.Add(kv[0], kv[1])
			}
			ran, nf, got = -1, false, nil
			ranUID = -1
			rec := httptest.NewRecorder()
			hreq := rt.Req{M: op.M, P: op.P, Wire: op.W}.HTTP()
			hreq.Header = hdr
			f.ServeHTTP(rec, hreq)
			if blind {
				first, firstNF := ranUID, nf
				ran, nf, got, ranUID = -1, false, nil, -1
				slashed := rt.Req{M: op.M, P: "/" + op.P}.HTTP()
				slashed.Header = hdr
				f.ServeHTTP(httptest.NewRecorder(), slashed)
				if first != ranUID || firstNF != nf {
					return fail(out, "shortcut-diverges", "step %d: %s %q headers %v: ServeHTTP ran the handler registered at step %d (not-found=%v), the same request with one more leading slash - full tree matching - ran the one of step %d (not-found=%v); history %s",
						step, op.M, op.P, op.Q, first, firstNF, ranUID, nf, showOps(c.Ops[:step+1]))
				}
				out.NonTrivial = true
				out.Classes = append(out.Classes, "after-a-registration-refused-half-way")
				continue
			}
			// mirror
			wantIdx := -1
			var wantParams route.Params
			wantRoute := ""
			if tree := trees[op.M]; tree != nil {
				if leaf, params, ok := tree.Match(op.P, hdr); ok {
					wantRoute = leaf.Route()
					wantParams = params
					for i, rs := range regs {
						if rs.leaves[op.M] != nil && rt.Deriv(rs.r).Canon() == wantRoute {
							wantIdx = i
						}
					}
					if wantIdx < 0 {
						panic("harness: mirror leaf not found among registrations")
					}
				}
			}
			if op.M == "" || op.M != strings.ToUpper(op.M) {
				// a request method in a non-standard spelling: whether it is the
				// method of the standard spelling is not said anywhere
				if ran >= 0 && nf {
					return fail(out, "both-or-neither", "step %d: %s %q: a route handler and the not-found chain both ran", step, op.M, op.P)
				}
				out.Classes = append(out.Classes, "request-method-spelling-open")
				continue
			}
			if (ran >= 0) == nf {
				return fail(out, "both-or-neither", "step %d: %s %q: route handler ran=%v and not-found ran=%v", step, op.M, op.P, ran >= 0, nf)
			}
			if ran != wantIdx {
				return fail(out, "shortcut-diverges", "step %d: %s %q headers %v: ServeHTTP ran handler #%d (%s), full tree matching gives #%d (%s); history %s",
					step, op.M, op.P, op.Q, ran, routeOf(regs, ran), wantIdx, routeOf(regs, wantIdx), showOps(c.Ops[:step+1]))
			}
			if ran >= 0 {
				if got["route"] != wantRoute {
					return fail(out, "route-param", "step %d: %s %q: parameter route=%q, tree leaf route %q", step, op.M, op.P, got["route"], wantRoute)
				}
				// the whole parameter map must be what tree matching produced (plus
				// the reserved route): nothing left over from earlier requests
				for k, v := range got {
					if k == "route" {
						continue
					}
					if tv, ok := wantParams[k]; !ok || tv != v {
						return fail(out, "params-extra", "step %d: %s %q: the handler saw %s=%q, tree matching gives %q (present=%v); all parameters seen: %s", step, op.M, op.P, k, v, tv, ok, rt.Show(got))
					}
				}
				// the binds of the winning route must agree
				d := rt.Deriv(regs[ran].r)
				for _, s := range d.Segs {
					_, binds, _ := s.Classify()
					for _, b := range binds {
						tv, tok := wantParams[b]
						fv, fok := got[b]
						if tok != fok || tv != fv {
							return fail(out, "params", "step %d: %s %q: bind %q = %q (present=%v) via ServeHTTP, %q (present=%v) via the tree", step, op.M, op.P, b, fv, fok, tv, tok)
						}
					}
				}
			}
			// second opinion: the reference matcher
			var mregs []model.MRoute
			for i, rs := range regs {
				on := false
				for _, m := range expand(rs.m) {
					if m == op.M {
						on = true
					}
				}
				if !on {
					continue
				}
				mr, err := model.Compile(rt.Deriv(rs.r), i)
				if err != nil {
					panic(err)
				}
				if rs.hdr != nil {
					mr.Headers = map[string]*regexp.Regexp{}
					for j := 1; j < len(rs.hdr); j += 2 {
						mr.Headers[rs.hdr[j-1]] = regexp.MustCompile(rs.hdr[j])
					}
				}
				mregs = append(mregs, mr)
			}
			ref := model.Match(mregs, op.P, hdr, nil)
			refIdx := -1
			if ref.Found {
				refIdx = ref.Route.Index
			}
			if refIdx != ran {
				// ServeHTTP agrees with full tree matching, the reference matcher
				// does not: whatever that is, it is not the shortcut (C01 / C09
				// hold the tree against the reference)
				out.Classes = append(out.Classes, "tree-and-reference-differ")
			}
			// classification
			if ran >= 0 && isStatic(regs[ran].r) && regs[ran].hdr == nil {
				out.Classes = append(out.Classes, "static-unconstrained-hit")
				if len(regs) >= 2 {
					out.NonTrivial = true
				}
			}
			if strings.ContainsAny(op.P, "?{") {
				out.NonTrivial = true
				out.Classes = append(out.Classes, "syntax-chars-in-path")
			}
			if sawHdrOnStatic {
				out.NonTrivial = true
				out.Classes = append(out.Classes, "after-headers-on-static")
			}
			if ran < 0 {
				out.Classes = append(out.Classes, "not-found")
			}
		}
	}
	return out
}

func fail(out evid.Outcome, sig, format string, args ...interface{}) evid.Outcome {
	o := evid.Fail(sig, format, args...)
	o.NonTrivial, o.Classes, o.Sub = out.NonTrivial, out.Classes, out.Sub
	return o
}

// expand lists the methods a registration covers; "autohead-get" is Get while
// AutoHead is on, "any" is Any.
func expand(m string) []string {
	switch m {
	case "autohead-get":
		return []string{"GET", "HEAD"}
	case "any":
		return model.Methods
	}
	return model.ExpandMethods(m)
}

func routeOf(regs []*regState, i int) string {
	if i < 0 {
		return "not-found"
	}
	return regs[i].m + " " + regs[i].r
}

func isStatic(r string) bool {
	for _, s := range rt.Deriv(r).Segs {
		if k, _, _ := s.Classify(); k != model.KStatic {
			return false
		}
	}
	return true
}

func showOps(ops []Op) string {
	var parts []string
	for _, o := range ops {
		switch o.K {
		case "reg":
			parts = append(parts, "reg "+o.M+" "+o.R)
		case "hdr":
			parts = append(parts, fmt.Sprintf("hdr #%d %v", o.I, o.H))
		case "autohead":
			parts = append(parts, fmt.Sprintf("autohead %v", o.On))
		case "req":
			parts = append(parts, fmt.Sprintf("req %s %q", o.M, o.P))
		}
	}
	return "[" + strings.Join(parts, " ; ") + "]"
}

// ---- generator ------------------------------------------------------------------

var staticLits = []string{"a", "b", "q", "r", "users", "x.y", "a+b", "$", "%41", "A", "Users", "Q", "a;b", "q;v=2", "users;all", "me@x", "q&a", "it's!"}

func genCase(t *rapid.T) Case {
	var c Case
	g := model.NewRegistrar()
	type have struct{ m, r string }
	var regs []have
	methods := []string{"GET", "GET", "GET", "POST", "*", "get", "get,post", "GET, PUT", "autohead-get", "autohead-get", "any"}
	n := rapid.IntRange(3, 25).Draw(t, "nops")
	ah := false // AutoHead as the history has left it
	if rapid.IntRange(0, 5).Draw(t, "wide") == 0 {
		// a table with many entries for one method (more than any small fixed
		// capacity): 9..14 static routes first, constraints on some of them later
		for j, k := 0, rapid.IntRange(9, 14).Draw(t, "nwide"); j < k; j++ {
			d := model.Route{Segs: []model.Seg{{Elems: []model.Elem{{Lit: fmt.Sprintf("w%d", j)}}}}}
			g.Add("GET", d)
			regs = append(regs, have{"GET", d.Source()})
			c.Ops = append(c.Ops, Op{K: "reg", M: "GET", R: d.Source()})
		}
	}
	if rapid.IntRange(0, 9).Draw(t, "deep") == 0 {
		// a fully static route of 60..72 segments, requested as it is and with one
		// more leading slash
		var d model.Route
		for j, k := 0, rapid.IntRange(60, 72).Draw(t, "ndeep"); j < k; j++ {
			d.Segs = append(d.Segs, model.Seg{Elems: []model.Elem{{Lit: "d"}}})
		}
		g.Add("GET", d)
		regs = append(regs, have{"GET", d.Source()})
		c.Ops = append(c.Ops, Op{K: "reg", M: "GET", R: d.Source()}, Op{K: "req", M: "GET", P: d.Source()}, Op{K: "req", M: "GET", P: "/" + d.Source()}, Op{K: "req", M: "GET", P: d.Source() + "/d"})
	}
	lit := func() model.Seg {
		return model.Seg{Elems: []model.Elem{{Lit: staticLits[rapid.IntRange(0, len(staticLits)-1).Draw(t, "sl")]}}}
	}
	for i := 0; i < n; i++ {
		k := rapid.IntRange(0, 9).Draw(t, "opk")
		if rapid.IntRange(0, 14).Draw(t, "ah") == 0 {
			ah = rapid.IntRange(0, 2).Draw(t, "ahon") > 0
			c.Ops = append(c.Ops, Op{K: "autohead", On: ah})
			continue
		}
		if len(regs) > 0 && i > n/2 && rapid.IntRange(0, 14).Draw(t, "conflict") == 0 {
			// Any on a path that is taken for one method already: refused when it
			// gets there, after some methods have been registered
			h := regs[rapid.IntRange(0, len(regs)-1).Draw(t, "cf")]
			if len(expand(h.m)) == 1 && h.m == strings.ToUpper(h.m) {
				c.Ops = append(c.Ops, Op{K: "reg", M: "any", R: h.r})
				// and requests for that very path right away, with methods in front
				// of and behind the taken one
				pth := "/" + strings.Join(gen.Instance(t, rt.Deriv(h.r), false), "/")
				for _, m := range []string{"GET", "TRACE", h.m} {
					c.Ops = append(c.Ops, Op{K: "req", M: m, P: pth})
				}
				continue
			}
		}
		switch {
		case k < 3 || len(regs) == 0: // register
			var d model.Route
			switch rapid.IntRange(0, 5).Draw(t, "rk") {
			case 0, 1: // static
				ns := rapid.IntRange(1, 3).Draw(t, "ns")
				for j := 0; j < ns; j++ {
					d.Segs = append(d.Segs, lit())
				}
				if ns > 1 && rapid.IntRange(0, 5).Draw(t, "trail") == 0 {
					d.Segs[ns-1] = model.Seg{}
				}
			case 2, 3: // optional static
				ns := rapid.IntRange(1, 3).Draw(t, "ns")
				for j := 0; j < ns; j++ {
					d.Segs = append(d.Segs, lit())
				}
				d.Segs[ns-1].Optional = true
			case 4: // dynamic, over the same literals
				d = gen.Route(t, gen.RouteOpts{MaxSegs: 3})
			default: // shadowing candidate: a static prefix and a dynamic tail
				d.Segs = append(d.Segs, lit())
				used := map[string]bool{}
				d.Segs = append(d.Segs, gen.SegOfKind(t, []model.Kind{model.KPlaceholder, model.KRegex, model.KMatchAll}[rapid.IntRange(0, 2).Draw(t, "dk")], used, false))
				if rapid.Bool().Draw(t, "flip") {
					d.Segs[0], d.Segs[1] = d.Segs[1], d.Segs[0]
				}
			}
			m := methods[rapid.IntRange(0, len(methods)-1).Draw(t, "rm")]
			if ah && m != "POST" && m != "autohead-get" && m != "any" {
				// while AutoHead is on, GET is only declared through Get (or Any):
				// whether Route / Routes with GET add HEAD then is not stated
				m = []string{"autohead-get", "POST"}[rapid.IntRange(0, 1).Draw(t, "ahm")]
			}
			if len(regs) > 0 && rapid.IntRange(0, 3).Draw(t, "shadow") == 0 {
				// a dynamic route that shadows a registered one: same text with one
				// segment replaced by a bind (it takes the requests the static route
				// is not allowed to answer); registered for the same method
				h := regs[rapid.IntRange(0, len(regs)-1).Draw(t, "shadowof")]
				td := rt.Deriv(h.r)
				cp := append([]model.Seg(nil), td.Segs...)
				j := rapid.IntRange(0, len(cp)-1).Draw(t, "shadowseg")
				used := map[string]bool{}
				opt := cp[j].Optional
				cp[j] = gen.SegOfKind(t, []model.Kind{model.KPlaceholder, model.KRegex, model.KMatchAll}[rapid.IntRange(0, 2).Draw(t, "sk")], used, false)
				cp[j].Optional = opt
				d, m = model.Route{Segs: cp}, h.m
				if ah && m != "POST" && m != "autohead-get" && m != "any" {
					m = "autohead-get"
				}
			}
			ok := true
			for _, mm := range expand(m) {
				if v, _ := g.Check(mm, d); v != model.MustAccept {
					ok = false
				}
			}
			if !ok {
				continue
			}
			for _, mm := range expand(m) {
				g.Add(mm, d)
			}
			regs = append(regs, have{m, d.Source()})
			rop := Op{K: "reg", M: m, R: d.Source()}
			if rapid.IntRange(0, 4).Draw(t, "ingroup") == 0 {
				rop.InGroup = true
				if rapid.Bool().Draw(t, "ingrouphdr") {
					rop.H = []string{[]string{"X-A", "x-a", "Accept"}[rapid.IntRange(0, 2).Draw(t, "ghn")], []string{"", "^1$", "[0-9]+"}[rapid.IntRange(0, 2).Draw(t, "ghe")]}
				}
			}
			c.Ops = append(c.Ops, rop)
		case k < 5: // headers
			pairs := []string{[]string{"X-A", "x-a", "Accept"}[rapid.IntRange(0, 2).Draw(t, "hn")], []string{"", "^1$", "[0-9]+"}[rapid.IntRange(0, 2).Draw(t, "he")]}
			if rapid.IntRange(0, 4).Draw(t, "clear") == 0 {
				pairs = nil
			}
			c.Ops = append(c.Ops, Op{K: "hdr", I: rapid.IntRange(0, len(regs)-1).Draw(t, "hi"), H: pairs})
		default: // request
			h := regs[rapid.IntRange(0, len(regs)-1).Draw(t, "qi")]
			d := rt.Deriv(h.r)
			ms := expand(h.m)
			m := ms[rapid.IntRange(0, len(ms)-1).Draw(t, "qm")]
			if m == "GET" && rapid.IntRange(0, 5).Draw(t, "head") == 0 {
				m = "HEAD" // (HEAD for a route that may or may not have a HEAD counterpart)
			}
			if rapid.IntRange(0, 9).Draw(t, "oddm") == 0 {
				m = []string{"BREW", "", "get", "PUT"}[rapid.IntRange(0, 3).Draw(t, "om")]
			}
			var p string
			switch rapid.IntRange(0, 7).Draw(t, "pk") {
			case 0: // the route text itself
				p = h.r
			case 1: // canonical text with the marker removed / kept
				p = strings.ReplaceAll(h.r, "?", "")
			case 2, 3:
				p = "/" + strings.Join(gen.Instance(t, d, false), "/")
			case 4:
				p = "/" + strings.Join(gen.Instance(t, d, true), "/")
			case 5:
				p = gen.JoinPath(t, gen.MutatePath(t, gen.Instance(t, d, rapid.Bool().Draw(t, "sh")), staticLits))
			case 6:
				p = "/" + strings.Join(gen.Instance(t, d, rapid.Bool().Draw(t, "sh")), "/") + "/"
			default:
				p = strings.Repeat("/", rapid.IntRange(0, 3).Draw(t, "nl")) + strings.Join(gen.Instance(t, d, rapid.Bool().Draw(t, "sh")), "/")
			}
			if rapid.IntRange(0, 11).Draw(t, "keysplit") == 0 {
				// method and path are two strings, not one: "<METHOD><path>" cut
				// somewhere else (a method that is a piece of a real one, a path
				// that does not start with a slash)
				joined := m + p
				k := rapid.IntRange(0, len(joined)).Draw(t, "ksk")
				m, p = joined[:k], joined[k:]
			}
			if strings.Contains(p, "%") && rapid.IntRange(0, 2).Draw(t, "decoded") == 0 {
				// the decoded spelling of a path with escapes is another path
				p = model.Decode1(p)
			}
			var q [][2]string
			switch rapid.IntRange(0, 3).Draw(t, "qh") {
			case 1:
				q = [][2]string{{"X-A", "1"}}
			case 2:
				q = [][2]string{{"x-a", "zz"}, {"Accept", "12"}}
			case 3:
				q = [][2]string{{"X-A", ""}}
			}
			c.Ops = append(c.Ops, Op{K: "req", M: m, P: p, Q: q, W: gen.Wire(t)})
		}
	}
	return c
}

func TestProp(t *testing.T) {
	evid.Rapid(t, "history", 3000, 50000, func(t *rapid.T) {
		c := genCase(t)
		evid.Run(t, "history", c, func() evid.Outcome { return checkCase(c) })
	})
}

func TestPinned(t *testing.T) {
	cases := []Case{
		{Ops: []Op{{K: "reg", M: "GET", R: "/q/?r"}, {K: "req", M: "GET", P: "/q/?r"}, {K: "req", M: "GET", P: "/q/r"}, {K: "req", M: "GET", P: "/q"}}},
		{Ops: []Op{{K: "reg", M: "GET", R: "/a"}, {K: "reg", M: "GET", R: "/{x}"}, {K: "hdr", I: 0, H: []string{"X-A", "1"}}, {K: "req", M: "GET", P: "/a"}, {K: "req", M: "GET", P: "/a", Q: [][2]string{{"X-A", "1"}}}, {K: "hdr", I: 0, H: nil}, {K: "req", M: "GET", P: "/a"}}},
		{Ops: []Op{{K: "reg", M: "GET", R: "/users/?settings"}, {K: "reg", M: "GET", R: "/users/settings"}, {K: "req", M: "GET", P: "/users/settings"}, {K: "req", M: "GET", P: "//users/settings"}}},
		{Ops: []Op{{K: "reg", M: "*", R: "/a/"}, {K: "req", M: "PUT", P: "/a/"}, {K: "req", M: "PUT", P: "/a"}, {K: "req", M: "PUT", P: "//a/"}}},
	}
	for _, c := range cases {
		c := c
		evid.Run(t, "history", c, func() evid.Outcome { return checkCase(c) })
	}
}

func TestReplay(t *testing.T) {
	evid.Replay(t, map[string]evid.ReplayFn{
		"history": func(raw json.RawMessage) evid.Outcome {
			var c Case
			if err := json.Unmarshal(raw, &c); err != nil {
				panic(err)
			}
			return checkCase(c)
		},
	})
}
