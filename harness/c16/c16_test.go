// Package c16 decides property C16: Static answers only GET/HEAD under the
// prefix at a segment boundary, only with the content of regular files inside
// its directory, redirects directories to their slash form and serves them
// through the index file, and otherwise writes nothing.
package c16

import (
	"encoding/json"
	"fmt"
	"io"
	"net/http"
	"net/url"
	"os"
	"path"
	"path/filepath"
	"strconv"
	"strings"
	"testing"
	"time"

	"pgregory.net/rapid"

	"github.com/flamego/flamego"
	"github.com/flamego/flamego/verifharness/internal/evid"
	"github.com/flamego/flamego/verifharness/internal/rt"
)

const rule = "fixture = an on-disk tree: public/ with files, sub-directories with and without index, a directory named like the index file, odd names (blank, '..x', '%41.txt'), two files of one name, size and modification time in two directories (requested one after the other one case in six), and outside it secret.txt and public-evil/ - every file holds a unique marker. " +
	"case = options (Prefix spelled ''|p|/p|/p/|p/q|/|//, custom Index, SetETag, Expires, CacheControl; Directory given, left to its default 'public' below the working directory, or named (absolutely or relative to the working directory) through a symbolic link with a relative target while a directory of that relative name with other content exists below the working directory; passed as a value or as the element of a slice that was used for another directory before) x 1..6 requests: method in {GET, HEAD, POST, PUT, ''}, path assembled from pieces {file names, directory names, '..', '.', '', NUL, backslash, prefix look-alikes such as /px, /p-evil, /p.., <prefix><name> without a slash}, optional If-None-Match (learned from a first response), Range or If-Modified-Since, and one time in three a header a proxy may add or a client may forge (X-Forwarded-Prefix, X-Forwarded-Host, X-Original-URL, X-Sendfile, ...; 20 of them), which changes nothing. " +
	"Oracle: an own resolver over the fixture manifest - not GET/HEAD, prefix mismatch (segment boundary), or Clean('/'+rest) neither a regular file nor a directory -> Static wrote nothing and the next handler produced the response; regular file -> 200 with exactly that file's marker (HEAD: empty body), or 304 with an empty body for a conditional request whose If-None-Match carries the ETag of an earlier response; directory without trailing slash -> 302 whose Location, resolved against the request path, is the cleaned request path plus '/' and which carries no file content (an index-less directory may also stay silent); directory with slash -> its index file if regular, else silent; never an outside marker in any response. " +
	"non-trivial = a case with a path containing '..', a doubled slash, NUL or a backslash, a prefix look-alike, a directory, or a conditional request; distinct by case text"

var assumptions = []string{
	"no symlinks under the served directory",
	"request paths start with '/' (net/http guarantees it for GET and HEAD)",
	"an index-less directory without trailing slash may be redirected or left alone (the statement allows both)",
	"'redirected to their slash-terminated form and then served through the index file' is read as two responses: the redirect itself carries no file content (clause redirect-with-content)",
	"the fixture lives under the run's TMPDIR (the driver points it into /verif/.work)",
}

var fixtureRoot string

// manifest: path relative to public/ -> marker ("" for directories)
var files = map[string]string{}
var dirs = map[string]bool{"/": true}

const outside1, outside2 = "MARK:OUTSIDE-secret", "MARK:OUTSIDE-evil"

func TestMain(m *testing.M) {
	root, err := os.MkdirTemp("", "c16-fixture-")
	if err != nil {
		panic(err)
	}
	fixtureRoot = root
	write := func(rel, content string) {
		p := filepath.Join(root, rel)
		if err := os.MkdirAll(filepath.Dir(p), 0o755); err != nil {
			panic(err)
		}
		if err := os.WriteFile(p, []byte(content), 0o644); err != nil {
			panic(err)
		}
	}
	pub := func(rel string) {
		mark := "MARK:" + rel + ";"
		write(filepath.Join("public", rel), mark)
		files["/"+rel] = mark
		for d := path.Dir("/" + rel); d != "/"; d = path.Dir(d) {
			dirs[d] = true
		}
	}
	for _, f := range []string{"a.txt", "index.html", "home.htm", "sub/b.txt", "sub/index.html", "sub/deep/c.txt", "noindex/d.txt",
		"dirindex/index.html/x.txt", "sp ace.txt", "..x", "%41.txt", "idx/home.htm", "p/inner.txt", "px", "e.txt",
		// two files of one name, one size and one modification time in two directories
		"en/page.txt", "de/page.txt"} {
		pub(f)
	}
	same := time.Date(2020, 2, 2, 2, 2, 2, 0, time.UTC)
	for _, f := range []string{"en/page.txt", "de/page.txt"} {
		if err := os.Chtimes(filepath.Join(root, "public", f), same, same); err != nil {
			panic(err)
		}
	}
	// a file shorter than the range some requests ask for (bytes=2-5)
	write(filepath.Join("public", "tiny"), "ab")
	files["/tiny"] = "ab"
	write("secret.txt", outside1)
	write("public-evil/e.txt", outside2)
	write("public-evil/index.html", outside2)
	// a directory reached through links, as release directories are: deploy/current
	// -> "releases/v1" (relative to deploy/) -> <root>/public; and, next to the
	// working directory, a directory of the same relative name with other content
	if err := os.MkdirAll(filepath.Join(root, "deploy", "releases"), 0o755); err != nil {
		panic(err)
	}
	if err := os.Symlink(filepath.Join(root, "public"), filepath.Join(root, "deploy", "releases", "v1")); err != nil {
		panic(err)
	}
	if err := os.Symlink(filepath.Join("releases", "v1"), filepath.Join(root, "deploy", "current")); err != nil {
		panic(err)
	}
	for _, f := range []string{"a.txt", "index.html", "home.htm", "sub/b.txt", "sub/index.html", "e.txt", "only-here.txt"} {
		write(filepath.Join("releases", "v1", f), "MARK:OUTSIDE-decoy")
	}
	// "public" is the default directory, relative to the working directory
	if err := os.Chdir(root); err != nil {
		panic(err)
	}
	evid.AtExit(func() { _ = os.RemoveAll(root) })
	evid.Main(m, "C16", rule, assumptions)
}

type Opts struct {
	// DefaultDir: no Directory is given: the default is "public" below the
	// working directory (which the harness makes the fixture's root).
	DefaultDir bool `json:"directory_left_to_default,omitempty"`
	// SharedSlice: the options are one element of a slice the application
	// reuses: a first Static is built from it for another directory (the one
	// next door, which holds the outside files), the element is changed to the
	// directory under test and the Static under test is built from the same
	// slice; the first one is thrown away.
	SharedSlice  bool   `json:"options_slice_reused,omitempty"`
	// LinkDir: the directory is named through a symbolic link with a relative
	// target ("deploy/current" -> "releases/v1" -> the directory): "abs" = by
	// its absolute path, "rel" = relative to the working directory.
	LinkDir      string `json:"directory_through_symlink,omitempty"`
	Prefix       string `json:"prefix"`
	Index        string `json:"index,omitempty"`
	ETag         bool   `json:"etag,omitempty"`
	Expires      bool   `json:"expires,omitempty"`
	CacheControl bool   `json:"cache_control,omitempty"`
}

type Req struct {
	M   string `json:"m"`
	P   string `json:"p"`             // strconv.Quote form
	INM string `json:"inm,omitempty"` // "", match, nomatch
	// Hdr: another request header that makes a server send less than the file:
	// "range" (bytes=2-5), "range-out" (bytes=100000-), "ims-future"
	// (If-Modified-Since far in the future), "ims-past".
	Hdr string `json:"hdr,omitempty"`
	// Proxy: a header a proxy in front may add (or a client may forge),
	// "Name: value"; nothing of what Static does depends on it.
	Proxy string `json:"proxy_header,omitempty"`
}

var proxyHeaders = []string{"X-Forwarded-Prefix: /app", "X-Forwarded-Prefix: //evil.example", "X-Forwarded-Prefix: https://evil.example/", "X-Forwarded-Host: evil.example",
	"X-Forwarded-Proto: https", "X-Forwarded-For: 10.0.0.1", "Forwarded: for=10.0.0.1;host=evil.example;proto=https", "X-Original-URL: /secret.txt", "X-Rewrite-URL: /../secret.txt",
	"X-Forwarded-Uri: /public-evil/e.txt", "X-Script-Name: /app", "X-Accel-Redirect: /secret.txt", "X-Sendfile: ../secret.txt", "X-Http-Method-Override: GET", "X-Real-Ip: 10.0.0.1",
	"Accept-Encoding: gzip, br", "Referer: http://evil.example/x/", "Origin: http://evil.example", "Destination: /secret.txt", "Accept: text/html"}

type Case struct {
	Opts Opts  `json:"opts"`
	Reqs []Req `json:"requests"`
}

func unq(s string) string {
	u, err := strconv.Unquote(s)
	if err != nil {
		panic(err)
	}
	return u
}

// want is the reference verdict for one request.
type want struct {
	kind   string // silent | file | redirect | redirect-or-silent
	marker string
	// lenient: the request path is not in canonical form (dot segments,
	// repeated slashes, a trailing slash behind a regular file). The statement
	// says what may never be sent for such a path; whether Static resolves it
	// (as http.Dir does) or refuses it and stays silent is left open, so both
	// the verdict above and silence are accepted.
	lenient bool
}

// underPrefix reports whether p lies under the configured prefix at a segment
// boundary, and what is left of it. The prefix is spelled with or without
// slashes; one that consists of slashes only is the root, i.e. every path.
func underPrefix(prefix, p string) (rest string, ok bool) {
	name := strings.Trim(prefix, "/")
	if name == "" {
		return p, true
	}
	pre := "/" + name
	if p == pre {
		return "", true
	}
	if strings.HasPrefix(p, pre+"/") {
		return p[len(pre):], true
	}
	return "", false
}

func reference(o Opts, method, p string) want {
	if method != "GET" && method != "HEAD" {
		return want{kind: "silent"}
	}
	rest, ok := underPrefix(o.Prefix, p)
	if !ok {
		return want{kind: "silent"}
	}
	lenient := strings.Contains(rest, "//")
	for _, seg := range strings.Split(rest, "/") {
		if seg == "." || seg == ".." {
			lenient = true
		}
	}
	target := path.Clean("/" + rest)
	if strings.ContainsRune(target, 0) {
		return want{kind: "silent"} // no such name can exist; a NUL that dot segments remove does not count
	}
	if mark, ok := files[target]; ok {
		return want{kind: "file", marker: mark, lenient: lenient || strings.HasSuffix(rest, "/")}
	}
	if dirs[target] {
		index := o.Index
		if index == "" {
			index = "index.html"
		}
		mark, hasIndex := files[path.Join(target, index)]
		// the slash-terminated form: the request path ends with a slash, or
		// names the root once dot segments are resolved ("/..", "/sub/..")
		if !strings.HasSuffix(p, "/") && path.Clean(p) != "/" {
			if hasIndex {
				return want{kind: "redirect", lenient: lenient}
			}
			return want{kind: "redirect-or-silent"}
		}
		if hasIndex {
			return want{kind: "file", marker: mark, lenient: lenient}
		}
		return want{kind: "silent"}
	}
	return want{kind: "silent"}
}

func checkCase(c Case) (out evid.Outcome) {
	out.Sub = len(c.Reqs)
	f := flamego.NewWithLogger(io.Discard)
	so := flamego.StaticOptions{
		Directory: filepath.Join(fixtureRoot, "public"),
		Prefix:    c.Opts.Prefix,
		Index:     c.Opts.Index,
		SetETag:   c.Opts.ETag,
	}
	if c.Opts.Expires {
		so.Expires = func() string { return "EXPIRES-VALUE" }
	}
	if c.Opts.CacheControl {
		so.CacheControl = func() string { return "CACHE-VALUE" }
	}
	if c.Opts.DefaultDir {
		so.Directory = ""
	} else if c.Opts.LinkDir == "abs" {
		so.Directory = filepath.Join(fixtureRoot, "deploy", "current")
	} else if c.Opts.LinkDir == "rel" {
		so.Directory = filepath.Join("deploy", "current")
	}
	if c.Opts.LinkDir != "" && !c.Opts.DefaultDir {
		out.Classes = append(out.Classes, "directory-through-symlink")
	}
	if c.Opts.SharedSlice {
		list := []flamego.StaticOptions{so}
		list[0].Directory = filepath.Join(fixtureRoot, "public-evil")
		_ = flamego.Static(list...)
		list[0].Directory = so.Directory
		f.Use(flamego.Static(list...))
		out.Classes = append(out.Classes, "options-slice-reused")
	} else {
		f.Use(flamego.Static(so))
	}
	if c.Opts.DefaultDir {
		out.Classes = append(out.Classes, "default-directory")
	}
	nextRan := false
	f.Use(func(ctx flamego.Context) {
		nextRan = true
		if !ctx.ResponseWriter().Written() {
			ctx.ResponseWriter().WriteHeader(299)
			_, _ = ctx.ResponseWriter().Write([]byte("NEXT"))
		}
	})
	serve := func(method, p string, hdr http.Header) *rt.Spy {
		nextRan = false
		spy := rt.NewSpy()
		f.ServeHTTP(spy, rt.NewRequest(method, p, hdr))
		return spy
	}
	for _, q := range c.Reqs {
		p := unq(q.P)
		w := reference(c.Opts, q.M, p)
		hdr := http.Header{}
		if q.INM != "" {
			etag := `"nomatch"`
			if q.INM == "match" {
				first := serve(q.M, p, nil)
				if e := first.H.Get("ETag"); e != "" {
					etag = e
				}
			}
			hdr.Set("If-None-Match", etag)
			out.NonTrivial = true
			out.Classes = append(out.Classes, "conditional")
		}
		switch q.Hdr {
		case "range":
			hdr.Set("Range", "bytes=2-5")
		case "range-out":
			hdr.Set("Range", "bytes=100000-")
		case "ims-future":
			hdr.Set("If-Modified-Since", "Fri, 01 Jan 2100 00:00:00 GMT")
		case "ims-past":
			hdr.Set("If-Modified-Since", "Thu, 01 Jan 1970 00:00:01 GMT")
		}
		if q.Proxy != "" {
			kv := strings.SplitN(q.Proxy, ": ", 2)
			hdr.Set(kv[0], kv[1])
			out.Classes = append(out.Classes, "proxy-header")
		}
		spy := serve(q.M, p, hdr)
		body := string(spy.Body)
		desc := fmt.Sprintf("%s %s (If-None-Match: %q) with %s", q.M, q.P, hdr.Get("If-None-Match"), js(c.Opts))
		if strings.Contains(body, "OUTSIDE") {
			return fail(out, "outside-content", "response contains the content of a file outside the directory: %q; %s", clip(body), desc)
		}
		silent := func() evid.Outcome {
			// (who drops the body of a HEAD response - the response writer or the
			// server below it - is not this property's business)
			bodyOK := body == "NEXT" || (q.M == "HEAD" && body == "")
			if !nextRan || spy.Status() != 299 || !bodyOK || len(spy.Codes) != 1 {
				return fail(out, "not-silent", "Static must stay silent (reference: %s) but the response is status %v body %q, next handler ran=%v; %s", w.kind, spy.Codes, clip(body), nextRan, desc)
			}
			for _, h := range []string{"ETag", "Expires", "Cache-Control", "Location", "Last-Modified"} {
				if spy.H.Get(h) != "" {
					return fail(out, "silent-but-headers", "Static stayed silent but set %s=%q; %s", h, spy.H.Get(h), desc)
				}
			}
			return evid.Outcome{}
		}
		redirect := func() evid.Outcome {
			loc := spy.H.Get("Location")
			if strings.Contains(body, "MARK:") {
				return fail(out, "redirect-with-content", "the redirect of a directory without trailing slash carries file content: %q; %s", clip(body), desc)
			}
			if st := spy.Status(); (st != 301 && st != 302 && st != 307 && st != 308) || nextRan {
				return fail(out, "no-redirect", "a directory without trailing slash must be redirected: status %v, next ran=%v; %s", spy.Codes, nextRan, desc)
			}
			// "redirected to their slash-terminated form": the Location, resolved
			// against the request path like a client does, must be the cleaned
			// request path plus "/" on the same host (absolute-path and relative
			// references are both fine, percent-encoded or not)
			ref, perr := url.Parse(loc)
			if perr != nil || ref.Scheme != "" || ref.Host != "" || strings.HasPrefix(loc, "//") {
				return fail(out, "bad-location", "redirect Location %q is not a local reference (%v); %s", loc, perr, desc)
			}
			base := &url.URL{Path: p}
			target := base.ResolveReference(ref).Path
			if wantT := path.Clean(p) + "/"; target != wantT && !(w.lenient && target == p+"/") {
				return fail(out, "bad-location", "redirect Location %q resolves to %q, the slash-terminated form of the request path is %q; %s", loc, target, wantT, desc)
			}
			return evid.Outcome{}
		}
		judge := func(wj want) (o evid.Outcome, cls string) {
			w = wj // (silent and redirect quote the verdict they are held against)
			if w.lenient && spy.Status() == 299 {
				// a non-canonical path that Static chose not to resolve
				if o := silent(); o.Violation != "" {
					return o, ""
				}
				return evid.Outcome{}, "non-canonical-path-refused"
			}
			switch w.kind {
			case "silent":
				if o := silent(); o.Violation != "" {
					return o, ""
				}
				cls = "silent"
			case "redirect":
				if o := redirect(); o.Violation != "" {
					return o, ""
				}
				cls = "redirect"
			case "redirect-or-silent":
				if spy.Status() == 299 {
					if o := silent(); o.Violation != "" {
						return o, ""
					}
				} else if o := redirect(); o.Violation != "" {
					return o, ""
				}
				cls = "indexless-dir"
			case "file":
				wantBody := w.marker
				// a conditional request whose validator is the one Static handed out
				// may also be answered "not modified" with an empty body (that sends
				// nothing of any file, so the statement holds)
				notModified := q.INM == "match" && spy.Status() == 304 && body == ""
				served := spy.Status() == 200 && (body == wantBody || (q.M == "HEAD" && body == ""))
				switch q.Hdr {
				case "range":
					// part of the file (that is content of the file), or all of it
					if len(wantBody) >= 6 && spy.Status() == 206 && (body == wantBody[2:6] || (q.M == "HEAD" && body == "")) {
						served = true
					}
					if spy.Status() == 416 && !strings.Contains(body, "MARK:") {
						served = true // shorter than the range asks for
					}
				case "range-out":
					if spy.Status() == 416 && !strings.Contains(body, "MARK:") {
						served = true // net/http's answer to a range outside the file: no file content at all
					}
				case "ims-future":
					if spy.Status() == 304 && body == "" {
						served = true
					}
				}
				if nextRan || !(served || notModified) {
					return fail(out, "wrong-file-response", "want status 200 body %q (or 304 for a conditional request), got status %v body %q, next ran=%v; %s", wantBody, spy.Codes, clip(body), nextRan, desc), ""
				}
				cls = "file-served"
			}
			return evid.Outcome{}, cls
		}
		o, cls := judge(w)
		if o.Violation != "" && path.Clean(p) != strings.TrimSuffix(p, "/") && p != "/" {
			// the request path is not in canonical form: whether the prefix is
			// looked for in the path as sent or in its cleaned form is not said
			// either; the verdict for the cleaned path is accepted as well
			cp := path.Clean(p)
			if strings.HasSuffix(p, "/") && cp != "/" {
				cp += "/"
			}
			w2 := reference(c.Opts, q.M, cp)
			w2.lenient = true
			if o2, _ := judge(w2); o2.Violation == "" {
				o, cls = o2, "non-canonical-path-cleaned-first"
			}
		}
		if o.Violation != "" {
			return o
		}
		out.Classes = append(out.Classes, cls)
		if strings.Contains(p, "..") || strings.Contains(p, "//") || strings.ContainsAny(p, "\x00\\") {
			out.NonTrivial = true
			out.Classes = append(out.Classes, "hostile-path")
		}
		if w.kind == "redirect" || w.kind == "redirect-or-silent" || (w.kind == "file" && strings.HasSuffix(p, "/")) {
			out.NonTrivial = true
			out.Classes = append(out.Classes, "directory")
		}
		if strings.Trim(c.Opts.Prefix, "/") != "" {
			pre := "/" + strings.Trim(c.Opts.Prefix, "/")
			if strings.HasPrefix(p, pre) && len(p) > len(pre) && p[len(pre)] != '/' {
				out.NonTrivial = true
				out.Classes = append(out.Classes, "prefix-look-alike")
			}
		}
	}
	return out
}

func clip(s string) string {
	if len(s) > 120 {
		return s[:120] + "..."
	}
	return s
}

func fail(out evid.Outcome, sig, format string, args ...interface{}) evid.Outcome {
	o := evid.Fail(sig, format, args...)
	o.NonTrivial, o.Classes, o.Sub = out.NonTrivial, out.Classes, out.Sub
	return o
}

func js(v interface{}) string {
	b, _ := json.Marshal(v)
	return string(b)
}

// ---- generator ------------------------------------------------------------------------

var names = []string{"a.txt", "index.html", "home.htm", "sub", "b.txt", "deep", "c.txt", "noindex", "d.txt", "dirindex", "x.txt", "sp ace.txt", "..x", "%41.txt", "idx", "p", "inner.txt", "px", "e.txt",
	"secret.txt", "public-evil", "public", "nosuch", "A.TXT", "tiny"}

var odd = []string{"..", ".", "", "\x00", "\\", "...", "%2e%2e", "..\\", "a.txt\x00", "~", " "}

func genPath(t *rapid.T, o Opts) string {
	pre := ""
	if strings.Trim(o.Prefix, "/") != "" {
		pre = "/" + strings.Trim(o.Prefix, "/")
	}
	var b strings.Builder
	switch rapid.IntRange(0, 11).Draw(t, "prek") {
	case 10: // look-alike: the prefix in another letter case, in front of a path that exists
		if pre != "" {
			alt := strings.ToUpper(pre)
			if rapid.Bool().Draw(t, "title") {
				alt = pre[:1] + strings.ToUpper(pre[1:2]) + pre[2:]
			}
			return alt + targets[rapid.IntRange(0, len(targets)-1).Draw(t, "tgcase")]
		}
	case 11: // look-alike: a character of the prefix that means something in a pattern, replaced
		if i := strings.IndexAny(pre, ".+*?()[]"); i >= 0 {
			alt := pre[:i] + []string{"X", "-", "/", "_"}[rapid.IntRange(0, 3).Draw(t, "sub")] + pre[i+1:]
			return alt + targets[rapid.IntRange(0, len(targets)-1).Draw(t, "tgmeta")]
		}
	case 0: // no prefix at all
	case 1: // look-alike: the prefix glued to a name
		b.WriteString(pre)
		b.WriteString(names[rapid.IntRange(0, len(names)-1).Draw(t, "glue")])
		return b.String()
	case 2:
		b.WriteString(pre + []string{"x", "-evil", "..", ".", "%2F"}[rapid.IntRange(0, 4).Draw(t, "la")])
	default:
		b.WriteString(pre)
	}
	n := rapid.IntRange(0, 5).Draw(t, "nseg")
	for i := 0; i < n; i++ {
		b.WriteString("/")
		if rapid.IntRange(0, 3).Draw(t, "odd") == 0 {
			b.WriteString(odd[rapid.IntRange(0, len(odd)-1).Draw(t, "o")])
		} else {
			b.WriteString(names[rapid.IntRange(0, len(names)-1).Draw(t, "n")])
		}
	}
	if rapid.IntRange(0, 2).Draw(t, "trail") == 0 {
		b.WriteString("/")
	}
	return b.String()
}

// known good paths, so that files and directories are hit often
var targets = []string{"/a.txt", "/", "/sub", "/sub/", "/sub/b.txt", "/sub/deep/c.txt", "/noindex", "/noindex/", "/dirindex/", "/idx/", "/idx", "/sp ace.txt", "/..x", "/%41.txt", "/p/inner.txt", "/px", "/e.txt",
	"/sub/../a.txt", "/sub/../../secret.txt", "/../secret.txt", "/../public-evil/e.txt", "//a.txt", "/sub//b.txt", "/./a.txt", "/sub/deep/../../a.txt", "/..", "/../", "/sub/index.html/", "/index.html", "/tiny", "/tiny"}

func genCase(t *rapid.T) Case {
	var c Case
	c.Opts = Opts{
		Prefix:       []string{"", "", "p", "/p", "/p/", "p/q", "/public", "sub", "/", "//", "/p.q", "/v1.0", "/a+b", "/(p)"}[rapid.IntRange(0, 13).Draw(t, "prefix")],
		Index:        []string{"", "", "home.htm", "index.html", "b.txt"}[rapid.IntRange(0, 4).Draw(t, "index")],
		ETag:         rapid.Bool().Draw(t, "etag"),
		Expires:      rapid.Bool().Draw(t, "expires"),
		CacheControl: rapid.Bool().Draw(t, "cc"),
		DefaultDir:   rapid.IntRange(0, 4).Draw(t, "defaultdir") == 0,
		SharedSlice:  rapid.IntRange(0, 4).Draw(t, "sharedslice") == 0,
		LinkDir:      []string{"", "", "", "abs", "rel"}[rapid.IntRange(0, 4).Draw(t, "linkdir")],
	}
	pre := ""
	if strings.Trim(c.Opts.Prefix, "/") != "" {
		pre = "/" + strings.Trim(c.Opts.Prefix, "/")
	}
	for i, n := 0, rapid.IntRange(1, 6).Draw(t, "nreq"); i < n; i++ {
		var p string
		if rapid.Bool().Draw(t, "target") {
			p = pre + targets[rapid.IntRange(0, len(targets)-1).Draw(t, "tg")]
		} else {
			p = genPath(t, c.Opts)
		}
		if !strings.HasPrefix(p, "/") {
			p = "/" + p // the path of a GET/HEAD request always starts with a slash
		}
		c.Reqs = append(c.Reqs, Req{
			M:   []string{"GET", "GET", "GET", "GET", "GET", "HEAD", "HEAD", "GET", "POST", "PUT", "", "get", "OPTIONS", "DELETE", "head", "GET", "GET", "HEAD", "GET", "GET"}[rapid.IntRange(0, 19).Draw(t, "m")],
			P:   strconv.QuoteToASCII(p),
			INM: []string{"", "", "", "match", "nomatch"}[rapid.IntRange(0, 4).Draw(t, "inm")],
			Hdr: []string{"", "", "", "", "", "range", "range-out", "ims-future", "ims-past"}[rapid.IntRange(0, 8).Draw(t, "hdr")],
		})
		if rapid.IntRange(0, 2).Draw(t, "proxy") == 0 {
			c.Reqs[len(c.Reqs)-1].Proxy = proxyHeaders[rapid.IntRange(0, len(proxyHeaders)-1).Draw(t, "proxyhdr")]
		}
	}
	if rapid.IntRange(0, 5).Draw(t, "twins") == 0 {
		// on purpose: the two files that agree in name, size and modification time, one after the other
		order := [][2]string{{"en", "de"}, {"de", "en"}}[rapid.IntRange(0, 1).Draw(t, "twinorder")]
		for _, d := range order {
			c.Reqs = append(c.Reqs, Req{M: "GET", P: strconv.QuoteToASCII(pre + "/" + d + "/page.txt")})
		}
	}
	return c
}

func TestProp(t *testing.T) {
	evid.Rapid(t, "static", 3000, 150000, func(t *rapid.T) {
		c := genCase(t)
		evid.Run(t, "static", c, func() evid.Outcome { return checkCase(c) })
	})
}

func TestReplay(t *testing.T) {
	evid.Replay(t, map[string]evid.ReplayFn{
		"static": func(raw json.RawMessage) evid.Outcome {
			var c Case
			if err := json.Unmarshal(raw, &c); err != nil {
				panic(err)
			}
			return checkCase(c)
		},
	})
}
