package c13

import (
	"fmt"
	"net/http"
	"sync"
	"testing"
	"time"

	"pgregory.net/rapid"

	"github.com/flamego/flamego"
	"github.com/flamego/flamego/verifharness/internal/evid"
)

// Two status-triggering operations that overlap in time are a sequence of
// operations too (the writer carries a lock and an atomic status for exactly
// that): whichever order they take effect in, the underlying writer gets one
// status line and Status() reports that one. The harness owns the schedule: the
// underlying writer holds the first WriteHeader until the second operation has
// been issued from another goroutine.

type OverlapCase struct {
	First  int    `json:"first_status"`
	Second string `json:"second_op"` // wh | w | f
	Code   int    `json:"second_status,omitempty"`
	Hooks  int    `json:"before_functions"`
}

type gateSpy struct {
	mu      sync.Mutex
	h       http.Header
	lines   []int
	body    int
	entered chan struct{}
	release chan struct{}
	once    sync.Once
}

func (s *gateSpy) Header() http.Header { return s.h }
func (s *gateSpy) WriteHeader(c int) {
	first := false
	s.once.Do(func() { first = true })
	if first {
		close(s.entered)
		<-s.release
	}
	s.mu.Lock()
	s.lines = append(s.lines, c)
	s.mu.Unlock()
}
func (s *gateSpy) Write(b []byte) (int, error) {
	s.mu.Lock()
	s.body += len(b)
	s.mu.Unlock()
	return len(b), nil
}
func (s *gateSpy) Flush() {}

func checkOverlap(c OverlapCase) evid.Outcome {
	s := &gateSpy{h: http.Header{}, entered: make(chan struct{}), release: make(chan struct{})}
	w := flamego.NewResponseWriter("GET", s)
	var hookMu sync.Mutex
	hookRuns := 0
	for i := 0; i < c.Hooks; i++ {
		w.Before(func(flamego.ResponseWriter) { hookMu.Lock(); hookRuns++; hookMu.Unlock() })
	}
	var wg sync.WaitGroup
	wg.Add(2)
	go func() { defer wg.Done(); w.WriteHeader(c.First) }()
	<-s.entered // the first status line is on its way, not yet recorded
	go func() {
		defer wg.Done()
		switch c.Second {
		case "wh":
			w.WriteHeader(c.Code)
		case "w":
			_, _ = w.Write([]byte("late"))
		case "f":
			w.Flush()
		}
	}()
	time.Sleep(2 * time.Millisecond) // let the second operation reach the writer (only sensitivity depends on it)
	close(s.release)
	wg.Wait()
	s.mu.Lock()
	lines := append([]int(nil), s.lines...)
	s.mu.Unlock()
	desc := fmt.Sprintf("%+v", c)
	if len(lines) != 1 {
		return evid.Fail("two-status-lines", "overlapping operations: the underlying writer received status lines %v; %s", lines, desc)
	}
	if w.Status() != lines[0] || lines[0] != c.First {
		return evid.Fail("status", "overlapping operations: status line %v reached the underlying writer, Status() = %d, the first status sent was %d; %s", lines, w.Status(), c.First, desc)
	}
	hookMu.Lock()
	defer hookMu.Unlock()
	if hookRuns != c.Hooks {
		return evid.Fail("hooks", "overlapping operations: %d before-functions registered, %d runs; %s", c.Hooks, hookRuns, desc)
	}
	return evid.Outcome{NonTrivial: true, Classes: []string{"overlapping-operations"}}
}

func TestOverlap(t *testing.T) {
	evid.Rapid(t, "overlap", 150, 3000, func(t *rapid.T) {
		c := OverlapCase{
			First:  []int{200, 201, 404, 500}[rapid.IntRange(0, 3).Draw(t, "first")],
			Second: []string{"wh", "w", "f"}[rapid.IntRange(0, 2).Draw(t, "second")],
			Code:   []int{200, 500, 302}[rapid.IntRange(0, 2).Draw(t, "code")],
			Hooks:  rapid.IntRange(0, 3).Draw(t, "hooks"),
		}
		evid.Run(t, "overlap", c, func() evid.Outcome { return checkOverlap(c) })
	})
}
