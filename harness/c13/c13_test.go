// Package c13 decides property C13: the ResponseWriter forwards at most one
// status line, before any body byte; Status/Written/Size are truthful; HEAD
// forwards no body; Before functions run exactly once, in reverse order,
// before the status reaches the underlying writer.
package c13

import (
	"encoding/json"
	"errors"
	"fmt"
	"io"
	"net/http"
	"net/url"
	"strconv"
	"strings"
	"testing"

	"pgregory.net/rapid"

	"github.com/flamego/flamego"
	"github.com/flamego/flamego/verifharness/internal/evid"
	"github.com/flamego/flamego/verifharness/internal/gen"
)

const rule = "case = request method in {GET, HEAD, POST, PUT, DELETE, OPTIONS, \"\"} x an underlying writer (with or without http.Flusher, with or without io.ReaderFrom; sometimes itself a fresh flamego ResponseWriter around the spy; one case in five: the writer is the one a handler gets from its request context, after an earlier request on the same application registered 0..2 functions on its own response and wrote nothing) x a history of 1..14 operations over {WriteHeader(100..999; with an underlying writer that refuses other codes by panicking also 0, 99, 1000, -1), Write / io.WriteString / io.Copy of 0..64 bytes or of 0.5..70 KB (optionally cut short by the underlying writer with an error, or taken only N bytes per call without one), Flush, Before(hook)}; hooks set a header, read Status()/Written(), log themselves and sometimes register one more function while they run; a Content-Length response header may be set at any point of a HEAD response. Second check: responses of many writes (up to a few thousand) of 1..32 MiB into an underlying writer that only counts (totals around 2^31 and 2^32 bytes): Size() equals what was forwarded. " +
	"Oracle: a state-machine model written from the statement, compared after every step (Status, Written, Size, return values of Write) together with invariants over the log of calls the underlying writer received (<=1 WriteHeader, before every Write/Flush; hooks registered before the trigger ran exactly once, in reverse order, before that WriteHeader, and saw Status()==0; later hooks never run). " +
	"non-trivial = a history with >=2 hooks and a trigger, or a second WriteHeader / an implicit 200, or a body write on HEAD, or a short write; distinct by case text"

var assumptions = []string{
	"hooks do not write to the response themselves (re-entering the writer from a hook is a caller error)",
	"status codes outside 100..999 are only used with an underlying writer that refuses them by panicking, as net/http's does (a writer that takes WriteHeader(0) cannot be told from one that was never called)",
	"hooks do not panic (C15 has those)",
	"an underlying writer that reports a short count without an error (against io.Writer's contract) is generated, but only Size() == bytes it took is demanded then; what Write itself reports in that situation is open",
}

func TestMain(m *testing.M) { evid.Main(m, "C13", rule, assumptions) }

type Op struct {
	K     string `json:"op"` // wh | w | ws (io.WriteString) | cp (io.Copy from a plain reader) | f | before
	V     int    `json:"v,omitempty"`
	Short int    `json:"short,omitempty"` // w: the underlying writer accepts only V-Short bytes and errors (when >0)
	// Chunk (w, ws): during this operation the underlying writer takes at most
	// Chunk bytes per call and reports no error (a capping / chunking writer
	// below; against io.Writer's contract, but "the reported size equals the body
	// bytes actually forwarded" does not depend on the manners of the writer
	// below). What Write returns then is open (the short count as it is, or the
	// whole after handing the rest over again); Size() is what was taken.
	Chunk int `json:"underlying_takes_at_most,omitempty"`
	// Nest (before): while it runs, the hook registers one more function -
	// too late to count as "registered before the first write"; whether that one
	// runs is left open, the ones registered in time are not affected by it.
	Nest bool `json:"registers_another,omitempty"`
}

type Case struct {
	Method  string `json:"method"`
	Flusher bool   `json:"flusher"`
	// ReaderFrom: the underlying writer also implements io.ReaderFrom (as
	// net/http's own response writer does).
	ReaderFrom bool `json:"reader_from,omitempty"`
	// Stacked: the writer handed to NewResponseWriter is itself a fresh flamego
	// ResponseWriter (of a GET request) around the spy, as when one Flame
	// instance is mounted inside another.
	Stacked bool `json:"stacked,omitempty"`
	// Strict: the underlying writer refuses status codes outside 100..999 by
	// panicking (net/http does); only then are such codes generated.
	Strict bool `json:"strict_underlying,omitempty"`
	// ViaFlame: the writer under test is the one a handler gets from its request
	// context (the underlying writer is what ServeHTTP was given); before that
	// request, another one on the same application registered PriorHooks
	// functions on its own response and wrote nothing.
	// Other: a second response writer is alive at the same time and gets a
	// before-function of its own whenever the one under test gets one.
	Other      bool `json:"another_writer_alive,omitempty"`
	ViaFlame   bool `json:"writer_of_a_request_context,omitempty"`
	PriorHooks int  `json:"functions_registered_by_an_earlier_request,omitempty"`
	Ops        []Op `json:"ops"`
}

// spy is the underlying writer.
type spy struct {
	h     http.Header
	log   []string
	short int // next Write is cut by this many bytes
	chunk int // while > 0: at most this many bytes per call, no error
	body  int
	// strict: a status code outside 100..999 is refused with a panic, as
	// net/http's own writer does
	strict bool
}

func (s *spy) Header() http.Header { return s.h }
func (s *spy) WriteHeader(c int) {
	if s.strict && (c < 100 || c > 999) {
		panic(fmt.Sprintf("invalid WriteHeader code %v", c))
	}
	s.log = append(s.log, fmt.Sprintf("WH %d hdr=%s", c, strings.Join(s.h["X-Hooks"], ",")))
}
func (s *spy) Write(b []byte) (int, error) {
	n := len(b)
	var err error
	if s.short > 0 {
		n -= s.short
		if n < 0 {
			n = 0
		}
		err = errors.New("short write")
		s.short = 0
	} else if s.chunk > 0 && n > s.chunk {
		n = s.chunk
	}
	s.body += n
	s.log = append(s.log, fmt.Sprintf("W %d", n))
	return n, err
}

type flushSpy struct{ *spy }

func (s flushSpy) Flush() { s.log = append(s.log, "F") }

// readFromSpy / readFromFlushSpy add io.ReaderFrom to the underlying writer.
type readFromSpy struct{ *spy }

func (s readFromSpy) ReadFrom(r io.Reader) (int64, error) { return s.spy.readFrom(r) }

type readFromFlushSpy struct{ flushSpy }

func (s readFromFlushSpy) ReadFrom(r io.Reader) (int64, error) { return s.spy.readFrom(r) }

func (s *spy) readFrom(r io.Reader) (int64, error) {
	data, err := io.ReadAll(r)
	s.body += len(data)
	s.log = append(s.log, fmt.Sprintf("W %d", len(data)))
	return int64(len(data)), err
}

// plainReader hides every optional interface of the reader it wraps.
type plainReader struct{ r io.Reader }

func (p plainReader) Read(b []byte) (int, error) { return p.r.Read(b) }

var errShort = errors.New("short write")

func checkCase(c Case) (out evid.Outcome) {
	s := &spy{h: http.Header{}, strict: c.Strict}
	var under http.ResponseWriter = s
	switch {
	case c.Flusher && c.ReaderFrom:
		under = readFromFlushSpy{flushSpy{s}}
	case c.Flusher:
		under = flushSpy{s}
	case c.ReaderFrom:
		under = readFromSpy{s}
	}
	if c.Stacked {
		under = flamego.NewResponseWriter(http.MethodGet, under)
	}
	var hookRuns []int // actual runs, in order
	// a second response (another request in flight, say) whose writer is alive
	// while the one under test is used
	var other flamego.ResponseWriter
	var otherRuns, otherWant []int
	if c.Other && !c.ViaFlame {
		other = flamego.NewResponseWriter(http.MethodGet, &spy{h: http.Header{}})
	}
	body := func(w flamego.ResponseWriter) (out evid.Outcome) {
		// model
		mStatus, mSize := 0, 0
		var mHooks []int    // registered before the trigger
		var wantRuns []int  // expected runs
		hooksAtTrigger := 0 // how many hooks had been registered when the status was sent
		triggered := false
		nHooks := 0
		second := false
		headWrite := false
		shortSeen := false
		chunked := false
		refused := false

		trigger := func(code int) {
			if mStatus != 0 {
				return
			}
			triggered = true
			hooksAtTrigger = len(mHooks)
			for i := len(mHooks) - 1; i >= 0; i-- {
				wantRuns = append(wantRuns, mHooks[i])
			}
			mStatus = code
		}

		for step, op := range c.Ops {
			desc := fmt.Sprintf("step %d %+v of %s", step, op, js(c))
			switch op.K {
			case "wh":
				if mStatus != 0 {
					second = true
				}
				if op.V < 100 || op.V > 999 {
					// a code the underlying writer refuses: what the wrapper makes of it
					// is open - the panic may come through (nothing is sent then; hooks
					// registered so far may have run on the way), or another status may be
					// sent in its place. The model takes over what happened in this step -
					// which hooks ran, which status line was accepted - and holds
					// everything against it from here on: Status() is the status sent,
					// hooks that ran do not run again, the others still do.
					if !c.Strict {
						panic("harness: out-of-range code without a strict underlying writer")
					}
					refused = true
					linesBefore, runsBefore := len(s.log), len(hookRuns)
					func() {
						defer func() { _ = recover() }()
						w.WriteHeader(op.V)
					}()
					if mStatus != 0 {
						break // the response was committed already: the call is dropped
					}
					for _, id := range hookRuns[runsBefore:] {
						at := -1
						for i, h := range mHooks {
							if h == id {
								at = i
							}
						}
						if at < 0 {
							return fail(out, "hooks", "%s: during the refused WriteHeader(%d) hook %d ran, which is not among the pending ones %v (-1000-id marks a hook that observed a status)", desc, op.V, id, mHooks)
						}
						mHooks = append(mHooks[:at:at], mHooks[at+1:]...)
						wantRuns = append(wantRuns, id)
					}
					if len(s.log) > linesBefore && strings.HasPrefix(s.log[linesBefore], "WH ") {
						var code int
						fmt.Sscanf(s.log[linesBefore], "WH %d", &code)
						trigger(code)
					}
					break
				}
				trigger(op.V)
				w.WriteHeader(op.V)
			case "w", "ws", "cp":
				wasWritten, triggeredBefore, wantRunsBefore := mStatus != 0, triggered, append([]int(nil), wantRuns...)
				_, _, _ = wasWritten, triggeredBefore, wantRunsBefore
				if mStatus == 0 {
					second = true // implicit 200
				}
				trigger(200)
				wantN, wantErr := 0, false
				if c.Method != http.MethodHead {
					wantN = op.V
					if op.Short > 0 {
						shortSeen = true
						wantN = op.V - op.Short
						if wantN < 0 {
							wantN = 0
						}
						wantErr = true
						s.short = op.Short
					}
					if op.Chunk > 0 && op.Short == 0 {
						s.chunk = op.Chunk
					}
					mSize += wantN
				} else if op.V > 0 {
					headWrite = true
				}
				var n int
				var err error
				if op.K == "cp" {
					// a body streamed with io.Copy from a source without WriterTo
					var n64 int64
					n64, err = io.Copy(w, plainReader{strings.NewReader(strings.Repeat("c", op.V))})
					n = int(n64)
					if c.Method == http.MethodHead && err == nil {
						n = op.V // io.Copy reports what it handed over
					}
					if op.V == 0 {
						// nothing to copy: io.Copy never calls Write; a wrapper with a
						// ReadFrom of its own is called all the same and may commit the
						// response (net/http's does): what happened is taken over
						sent := false
						for _, l := range s.log {
							if strings.HasPrefix(l, "WH") {
								sent = true
							}
						}
						if !wasWritten && !sent {
							mStatus, triggered, wantRuns = 0, triggeredBefore, wantRunsBefore
						}
					}
				} else if op.K == "ws" {
					// strings travel through io.WriteString, which uses a WriteString
					// method when the writer has one
					n, err = io.WriteString(w, strings.Repeat("s", op.V))
				} else {
					n, err = w.Write(make([]byte, op.V))
				}
				s.short = 0
				if s.chunk > 0 {
					// a writer below that took the bytes piecewise without an error:
					// what it took during this call is what was forwarded
					s.chunk = 0
					if op.Chunk < op.V {
						chunked = true
					}
					took := s.body - (mSize - wantN)
					if n < 0 || n > op.V || took > op.V {
						return fail(out, "write-result", "%s: Write of %d bytes returned (%d, %v) and the underlying writer (at most %d bytes per call, no error) took %d", desc, op.V, n, err, op.Chunk, took)
					}
					mSize += took - wantN
					n, err = wantN, nil
				}
				if c.Method == http.MethodHead {
					// nothing is forwarded; the statement leaves the reported count open
					// (all bytes "consumed", or none), but it is not an error
					if op.K == "cp" && n == 0 && err == io.ErrShortWrite {
						// a Write that reports 0 bytes for HEAD makes io.Copy itself say so
						err = nil
					}
					if err != nil || (n != op.V && n != 0) {
						return fail(out, "write-result", "%s: Write on a HEAD request returned (%d, %v)", desc, n, err)
					}
				} else if n != wantN || (err != nil) != wantErr {
					return fail(out, "write-result", "%s: Write returned (%d, %v), the underlying writer took %d bytes (error=%v)", desc, n, err, wantN, wantErr)
				}
			case "cl":
				// a response header, as handlers that know the length of what they
				// (would) send set it: no operation of the writer, nothing changes
				w.Header().Set("Content-Length", fmt.Sprint(op.V))
			case "f":
				if mStatus == 0 {
					second = true
				}
				trigger(200)
				w.Flush()
			case "before":
				id := op.V
				nHooks++
				late := mStatus != 0
				if !late {
					mHooks = append(mHooks, id)
				}
				if other != nil {
					// the other response gets a function of its own first
					oid := 7000 + id
					otherWant = append([]int{oid}, otherWant...)
					other.Before(func(flamego.ResponseWriter) { otherRuns = append(otherRuns, oid) })
				}
				w.Before(func(rw flamego.ResponseWriter) {
					if late {
						// registered after the status went out: the statement speaks about
						// functions registered before the first write; whether this one is
						// ever called is left open (like a function registered by a hook)
						return
					}
					hookRuns = append(hookRuns, id)
					rw.Header().Add("X-Hooks", fmt.Sprint(id))
					if rw.Status() != 0 || rw.Written() {
						hookRuns = append(hookRuns, -1000-id) // marks "saw a status"
					}
					if op.Nest {
						rw.Before(func(flamego.ResponseWriter) {})
					}
				})
			}
			// truthfulness after every step
			if w.Status() != mStatus {
				return fail(out, "status", "%s: Status() = %d, want %d", desc, w.Status(), mStatus)
			}
			if w.Written() != (mStatus != 0) {
				return fail(out, "written", "%s: Written() = %v with status %d", desc, w.Written(), mStatus)
			}
			if w.Size() != mSize {
				return fail(out, "size", "%s: Size() = %d, the underlying writer accepted %d body bytes", desc, w.Size(), mSize)
			}
			if s.body != mSize {
				return fail(out, "forwarded", "%s: the underlying writer received %d body bytes, want %d (method %s)", desc, s.body, mSize, c.Method)
			}
			// log invariants
			wh := 0
			for i, l := range s.log {
				if strings.HasPrefix(l, "WH") {
					wh++
					if i != 0 {
						return fail(out, "status-not-first", "%s: the underlying writer saw %q before the status line: %v", desc, s.log[0], s.log)
					}
				}
			}
			if wh > 1 {
				return fail(out, "two-status-lines", "%s: the underlying writer received %d status lines: %v", desc, wh, s.log)
			}
			if (wh == 1) != (mStatus != 0) {
				return fail(out, "status-line", "%s: status lines forwarded = %d, model status %d: %v", desc, wh, mStatus, s.log)
			}
			if wh == 1 {
				want := fmt.Sprintf("WH %d hdr=%s", mStatus, joinInts(wantRuns))
				if s.log[0] != want {
					return fail(out, "status-line-content", "%s: the underlying writer got %q, want %q (code, and the headers set by the hooks must already be there)", desc, s.log[0], want)
				}
			}
			if fmt.Sprint(hookRuns) != fmt.Sprint(wantRuns) {
				return fail(out, "hooks", "%s: hooks ran %v, want %v (registered before the first write, reverse order, once; -1000-id marks a hook that observed a status)", desc, hookRuns, wantRuns)
			}
		}
		if triggered && hooksAtTrigger >= 2 {
			out.NonTrivial = true
			out.Classes = append(out.Classes, "hooks>=2-with-trigger")
		}
		if second {
			out.NonTrivial = true
			out.Classes = append(out.Classes, "second-trigger-or-implicit-200")
		}
		if headWrite {
			out.NonTrivial = true
			out.Classes = append(out.Classes, "head-body-write")
		}
		if shortSeen {
			out.NonTrivial = true
			out.Classes = append(out.Classes, "short-write")
		}
		if chunked {
			out.NonTrivial = true
			out.Classes = append(out.Classes, "short-count-without-error")
		}
		if c.Stacked {
			out.NonTrivial = true
			out.Classes = append(out.Classes, "stacked-wrappers")
		}
		if refused {
			out.NonTrivial = true
			out.Classes = append(out.Classes, "status-code-refused-by-underlying-writer")
		}
		if nHooks > hooksAtTrigger && triggered {
			out.Classes = append(out.Classes, "late-hook")
		}
		if other != nil {
			// the other response is sent last: its own functions, nobody else's
			runsBefore := fmt.Sprint(hookRuns)
			if len(otherRuns) != 0 {
				// functions registered on a writer run before *that* writer's status
				return fail(out, "hooks", "functions registered on a second response writer ran (%v) before that writer sent anything, while the writer under test was at work; %s", otherRuns, js(c))
			}
			other.WriteHeader(204)
			if fmt.Sprint(otherRuns) != fmt.Sprint(otherWant) || fmt.Sprint(hookRuns) != runsBefore {
				return fail(out, "hooks", "a second response writer, alive at the same time, ran %v (want its own functions %v); the functions of the writer under test ran %s before and %v after that; %s", otherRuns, otherWant, runsBefore, hookRuns, js(c))
			}
			if len(otherWant) > 0 {
				out.NonTrivial = true
				out.Classes = append(out.Classes, "two-response-writers-alive")
			}
		}
		return out
	}
	if !c.ViaFlame {
		return body(flamego.NewResponseWriter(c.Method, under))
	}
	// the writer a handler gets from its request context, after an earlier
	// request on the same application registered functions on *its* response and
	// never wrote: nothing of that may show on this one
	f := flamego.NewWithLogger(io.Discard)
	prior, ran := true, false
	h := func(ctx flamego.Context) {
		if prior {
			for k := 0; k < c.PriorHooks; k++ {
				k := k
				ctx.ResponseWriter().Before(func(flamego.ResponseWriter) {
					// (a framework may finish a response nobody wrote by itself and
					// run the function then: it only counts when it runs during the
					// request under test)
					if !prior {
						hookRuns = append(hookRuns, 9000+k)
					}
				})
			}
			return
		}
		ran = true
		out = body(ctx.ResponseWriter())
	}
	if c.Method == http.MethodGet || c.Method == http.MethodHead {
		// (the HEAD route that AutoHead declares next to a GET route is a HEAD
		// route like any other)
		f.AutoHead(true)
		f.Get("/", h)
	} else {
		f.Any("/", h)
	}
	f.NotFound(h)
	mkReq := func() *http.Request {
		return &http.Request{Method: c.Method, URL: &url.URL{Path: "/"}, Header: http.Header{}, Proto: "HTTP/1.1", ProtoMajor: 1, ProtoMinor: 1}
	}
	f.ServeHTTP(&spy{h: http.Header{}}, mkReq())
	prior = false
	f.ServeHTTP(under, mkReq())
	if !ran {
		panic("harness: the handler did not run")
	}
	out.NonTrivial = true
	out.Classes = append(out.Classes, "writer-of-a-request-context")
	return out
}

func joinInts(xs []int) string {
	var p []string
	for _, x := range xs {
		p = append(p, fmt.Sprint(x))
	}
	return strings.Join(p, ",")
}

func fail(out evid.Outcome, sig, format string, args ...interface{}) evid.Outcome {
	o := evid.Fail(sig, format, args...)
	o.NonTrivial, o.Classes = out.NonTrivial, out.Classes
	return o
}

func js(v interface{}) string {
	b, _ := json.Marshal(v)
	return string(b)
}

func genCase(t *rapid.T) Case {
	c := Case{
		Method:     []string{"GET", "HEAD", "POST", "PUT", "GET", "HEAD", "DELETE", "OPTIONS", ""}[rapid.IntRange(0, 8).Draw(t, "method")],
		Flusher:    rapid.Bool().Draw(t, "flusher"),
		ReaderFrom: rapid.Bool().Draw(t, "readerfrom"),
		Stacked:    rapid.IntRange(0, 4).Draw(t, "stacked") == 0,
		Strict:     rapid.IntRange(0, 2).Draw(t, "strict") == 0,
		ViaFlame:   rapid.IntRange(0, 4).Draw(t, "viaflame") == 0,
	}
	if c.ViaFlame {
		c.PriorHooks = rapid.IntRange(0, 2).Draw(t, "priorhooks")
	} else {
		c.Other = rapid.IntRange(0, 3).Draw(t, "other") == 0
	}
	n := rapid.IntRange(1, 14).Draw(t, "nops")
	hook := 0
	for i := 0; i < n; i++ {
		switch k := rapid.IntRange(0, 10).Draw(t, "op"); {
		case k == 10:
			if c.Method != "HEAD" {
				// (only where no body follows: a writer may hold a declared length
				// against the bytes it is given, as net/http's does)
				continue
			}
			c.Ops = append(c.Ops, Op{K: "cl", V: []int{11, 1234, 0, 70000}[rapid.IntRange(0, 3).Draw(t, "clv")]})
		case k < 2:
			code := rapid.IntRange(100, 999).Draw(t, "code")
			if c.Strict && rapid.IntRange(0, 2).Draw(t, "badcode") == 0 {
				code = []int{0, 99, 1000, -1, 1234}[rapid.IntRange(0, 4).Draw(t, "bad")]
			}
			c.Ops = append(c.Ops, Op{K: "wh", V: code})
		case k < 5:
			op := Op{K: []string{"w", "w", "ws", "cp"}[rapid.IntRange(0, 3).Draw(t, "wk")], V: rapid.IntRange(0, 64).Draw(t, "n")}
			if rapid.IntRange(0, 9).Draw(t, "big") == 0 {
				op.V = gen.BigSizes[rapid.IntRange(0, len(gen.BigSizes)-1).Draw(t, "bigsize")]
			}
			if op.K != "cp" && rapid.IntRange(0, 5).Draw(t, "short") == 0 && op.V > 0 {
				op.Short = rapid.IntRange(1, op.V).Draw(t, "cut")
			}
			if op.K != "cp" && op.Short == 0 && op.V > 1 && rapid.IntRange(0, 6).Draw(t, "chunked") == 0 {
				op.Chunk = rapid.IntRange(1, op.V-1).Draw(t, "chunk")
				if op.V > 4096 && op.Chunk < op.V/64 {
					op.Chunk = op.V / 64 // a looping wrapper needs V/Chunk calls
				}
			}
			c.Ops = append(c.Ops, op)
		case k < 6:
			c.Ops = append(c.Ops, Op{K: "f"})
		default:
			hook++
			c.Ops = append(c.Ops, Op{K: "before", V: hook, Nest: rapid.IntRange(0, 3).Draw(t, "nest") == 0})
		}
	}
	return c
}

func TestProp(t *testing.T) {
	evid.Rapid(t, "history", 20000, 1000000, func(t *rapid.T) {
		c := genCase(t)
		evid.Run(t, "history", c, func() evid.Outcome { return checkCase(c) })
	})
}

// Volume is a response of many large writes: the size counter has to follow the
// bytes forwarded beyond 2^31 and 2^32 as well.
type Volume struct {
	Method string `json:"method"`
	Chunk  int    `json:"chunk_bytes"`
	Writes int    `json:"writes"`
	Tail   int    `json:"last_write_bytes"`
}

// sink is an underlying writer that only counts.
type sink struct {
	h      http.Header
	codes  []int
	bytes  int64
	writes int
}

func (s *sink) Header() http.Header { return s.h }
func (s *sink) WriteHeader(c int)   { s.codes = append(s.codes, c) }
func (s *sink) Write(b []byte) (int, error) {
	s.bytes += int64(len(b))
	s.writes++
	return len(b), nil
}

var volumeChunk = make([]byte, 32<<20)

func checkVolume(v Volume) (out evid.Outcome) {
	if strconv.IntSize < 64 {
		return out // the total does not fit an int there
	}
	u := &sink{h: http.Header{}}
	w := flamego.NewResponseWriter(v.Method, u)
	total := 0
	for i := 0; i <= v.Writes; i++ {
		b := volumeChunk[:v.Chunk]
		if i == v.Writes {
			b = volumeChunk[:v.Tail]
		}
		n, err := w.Write(b)
		if (n != len(b) && !(v.Method == "HEAD" && n == 0)) || err != nil {
			// (what Write reports to the caller for a HEAD request - 0 or the
			// length - is not fixed by the statement, see the main check)
			return fail(out, "write-result", "write %d of %d bytes returned (%d, %v); %s", i, len(b), n, err, js(v))
		}
		total += len(b)
		if i == v.Writes || i%16 == 0 {
			if int64(w.Size()) != u.bytes {
				return fail(out, "size", "after %d writes Size() = %d, the underlying writer accepted %d body bytes; %s", i+1, w.Size(), u.bytes, js(v))
			}
		}
	}
	if v.Method == "HEAD" && u.bytes != 0 {
		return fail(out, "head-body", "%d body bytes forwarded for HEAD; %s", u.bytes, js(v))
	}
	if v.Method != "HEAD" && u.bytes != int64(total) {
		return fail(out, "forwarded", "%d of %d body bytes reached the underlying writer; %s", u.bytes, total, js(v))
	}
	if w.Status() != 200 || !w.Written() || len(u.codes) != 1 {
		return fail(out, "status", "Status() = %d, Written() = %v, status lines %v; %s", w.Status(), w.Written(), u.codes, js(v))
	}
	out.NonTrivial = total > 1<<31-1
	if total > 1<<32 {
		out.Classes = append(out.Classes, "volume-beyond-2^32")
	} else if total > 1<<31-1 {
		out.Classes = append(out.Classes, "volume-beyond-2^31")
	} else {
		out.Classes = append(out.Classes, "volume-small")
	}
	return out
}

func TestVolume(t *testing.T) {
	evid.Rapid(t, "volume", 60, 2000, func(t *rapid.T) {
		v := Volume{
			Method: []string{"GET", "POST", "HEAD"}[rapid.IntRange(0, 2).Draw(t, "method")],
			Chunk:  []int{32 << 20, 32 << 20, 1 << 20, 1<<24 + 1}[rapid.IntRange(0, 3).Draw(t, "chunk")],
			Tail:   rapid.IntRange(0, 3).Draw(t, "tail"),
		}
		// totals around 2^31 and 2^32, and small ones
		target := []int{1 << 31, 1 << 31, 1 << 32, 1<<32 + 1<<31, 1 << 26}[rapid.IntRange(0, 4).Draw(t, "target")]
		v.Writes = target/v.Chunk + rapid.IntRange(-1, 2).Draw(t, "extra")
		if v.Writes < 1 {
			v.Writes = 1
		}
		evid.Run(t, "volume", v, func() evid.Outcome { return checkVolume(v) })
	})
}

func TestReplay(t *testing.T) {
	evid.Replay(t, map[string]evid.ReplayFn{
		"volume": func(raw json.RawMessage) evid.Outcome {
			var v Volume
			if err := json.Unmarshal(raw, &v); err != nil {
				panic(err)
			}
			return checkVolume(v)
		},
		"history": func(raw json.RawMessage) evid.Outcome {
			var c Case
			if err := json.Unmarshal(raw, &c); err != nil {
				panic(err)
			}
			return checkCase(c)
		},
	})
}

var _ = errShort
