// Package c12 decides property C12: URL building substitutes every bind at
// once, keeps unsupplied binds visible, ignores unknown names, drops
// annotations, includes the optional segment only when asked, inverts
// matching, and panics on unknown / empty / duplicate names.
package c12

import (
	"encoding/json"
	"fmt"
	"io"
	"net/http"
	"net/http/httptest"
	"strings"
	"testing"

	"pgregory.net/rapid"

	"github.com/flamego/flamego"
	"github.com/flamego/flamego/verifharness/internal/evid"
	"github.com/flamego/flamego/verifharness/internal/gen"
	"github.com/flamego/flamego/verifharness/internal/model"
	"github.com/flamego/flamego/verifharness/internal/rt"
)

const rule = "case = 1..4 named routes (registered through Get / Route / Routes / Any / Combo, outside a group, inside one, or inside up to three nested groups next to sibling routes) and 1..6 build requests, each an assignment giving every bind a value from {absent, empty, plain, with '/', with '{other-bind}', with '{self}', with '{' or '}', '%41'} plus unknown names (far from every bind, one character away from one, a literal of the route), with or without withOptional; pairs of builds whose lists of pairs read alike once joined with a separator; " +
	"oracle = own single-pass substitution over the derivation, compared with Router.URLPath and Context.URLPath (inside a handler of a route without binds, and inside the handlers of the dispatched requests of the inverse direction, whose own bind values - some under names the target uses too - must not leak into the URL). Inverse: requests built from route instances are served, the handler builds the URL of its own named route from the parameters it received (optional segment iff the request used it) and must get the decoded request path back. " +
	"Every URL handed out is read again after all later builds and requests of the case: the string value a caller holds stays what it was. Also: Name(\"\"), a duplicate name and URLPath of an unknown name must panic. " +
	"non-trivial = a build whose values contain braces or another bind's name, or whose route has >=2 binds or a parameter list, or an inverse check on a path with an escape; distinct by case text"

var assumptions = []string{
	"bind names route and withOptional are reserved and never generated; supplied names are identifiers (values are arbitrary)",
	"reference substitution is written from the statement of C12",
}

func TestMain(m *testing.M) { evid.Main(m, "C12", rule, assumptions) }

type Named struct {
	Name string `json:"name"`
	Via  string `json:"via"` // get | route | routes | any | combo | group
	R    string `json:"route"`
}

type Build struct {
	Name  string      `json:"name"`
	Pairs [][2]string `json:"pairs"`
	// WithOptional is the value passed for the reserved name withOptional
	// ("-" = the pair is not passed at all); the optional segment is asked for
	// by the documented value "true"; "false", "0" and "" do not ask for it
	// (other truthy spellings are left alone: the documentation names "true" only).
	WithOptional string `json:"with_optional"`
	// OptFirst puts the withOptional pair in front of the other pairs.
	OptFirst bool `json:"with_optional_first,omitempty"`
}

func (b Build) asked() bool { return b.WithOptional == "true" }

type Case struct {
	Routes []Named  `json:"routes"`
	Builds []Build  `json:"builds"`
	Reqs   []rt.Req `json:"requests"`
	// Bad is an optional misuse that must panic: "empty-name", "dup-name", "unknown-name".
	Bad string `json:"bad,omitempty"`
}

// expected is the reference: single-pass substitution over the derivation.
func expected(d model.Route, vals map[string]string, withOptional bool) string {
	var b strings.Builder
	sub := func(name string) {
		if v, ok := vals[name]; ok {
			b.WriteString(v)
		} else {
			b.WriteString("{" + name + "}")
		}
	}
	for _, s := range d.Segs {
		if s.Optional && !withOptional {
			break
		}
		b.WriteString("/")
		k, _, _ := s.Classify()
		for _, e := range s.Elems {
			switch {
			case e.Params != nil:
				if k == model.KMatchAll {
					sub(e.Params[0].Name)
					continue
				}
				for _, p := range e.Params {
					sub(p.Name)
				}
			case e.Bind != "":
				sub(e.Bind)
			default:
				b.WriteString(e.Lit)
			}
		}
	}
	return b.String()
}

func pairsOf(b Build) []string {
	var out []string
	if b.WithOptional != "-" && b.OptFirst {
		out = append(out, "withOptional", b.WithOptional)
	}
	for _, kv := range b.Pairs {
		out = append(out, kv[0], kv[1])
	}
	if b.WithOptional != "-" && !b.OptFirst {
		out = append(out, "withOptional", b.WithOptional)
	}
	return out
}

type app struct {
	f      *flamego.Flame
	seen   func(name string, c flamego.Context)
	probe  func(c flamego.Context)
	byName map[string]model.Route
}

func build(c Case) (a *app, err interface{}) {
	defer func() {
		if r := recover(); r != nil {
			err = r
		}
	}()
	a = &app{f: flamego.NewWithLogger(io.Discard), byName: map[string]model.Route{}}
	a.f.Get("/zz-probe", func(ctx flamego.Context) {
		if a.probe != nil {
			a.probe(ctx)
		}
	})
	for _, n := range c.Routes {
		n := n
		h := func(ctx flamego.Context) {
			if a.seen != nil {
				a.seen(n.Name, ctx)
			}
		}
		switch n.Via {
		case "get":
			a.f.Get(n.R, h).Name(n.Name)
		case "route":
			a.f.Route("POST", n.R, []flamego.Handler{h}).Name(n.Name)
		case "routes":
			a.f.Routes(n.R, "GET, POST", h).Name(n.Name)
		case "any":
			a.f.Any(n.R, h).Name(n.Name)
		case "combo":
			a.f.Combo(n.R).Get(h).Post(h).Name(n.Name)
		case "nested":
			// one group per leading segment (up to three levels); the innermost
			// group also holds sibling routes declared before and after
			d := rt.Deriv(n.R)
			depth := len(d.Segs) - 1
			if depth > 3 {
				depth = 3
			}
			var decl func(level int)
			decl = func(level int) {
				if level == depth {
					tail := model.Route{Segs: d.Segs[depth:]}.Source()
					a.f.Get("/zz-sib-a-"+n.Name, func() {})
					a.f.Get(tail, h).Name(n.Name)
					a.f.Get("/zz-sib-b-"+n.Name, func() {})
					a.f.Group("/zz-sub-"+n.Name, func() { a.f.Get("/x", func() {}) })
					return
				}
				head := model.Route{Segs: d.Segs[level : level+1]}.Source()
				a.f.Group(head, func() { decl(level + 1) })
			}
			decl(0)
		case "group":
			// the route text is split after its first segment
			d := rt.Deriv(n.R)
			if len(d.Segs) < 2 {
				a.f.Group("", func() { a.f.Get(n.R, h).Name(n.Name) })
			} else {
				head := model.Route{Segs: d.Segs[:1]}.Source()
				tail := model.Route{Segs: d.Segs[1:]}.Source()
				a.f.Group(head, func() { a.f.Get(tail, h).Name(n.Name) })
			}
		default:
			panic("harness: via " + n.Via)
		}
		a.byName[n.Name] = rt.Deriv(n.R)
	}
	return a, nil
}

func mustPanic(f func()) (p interface{}) {
	defer func() { p = recover() }()
	f()
	return nil
}

func checkCase(c Case) (out evid.Outcome) {
	out = evid.Outcome{Sub: len(c.Builds) + len(c.Reqs)}
	a, err := build(c)
	if err != nil {
		// every route of a case is one the router is obliged to accept, and the
		// names are distinct
		return evid.Fail("registration-panic", "registering and naming the routes panicked: %v; routes %s", err, js(c.Routes))
	}
	// ---- misuse must panic
	switch c.Bad {
	case "empty-name":
		if mustPanic(func() { a.f.Get("/zz-empty-name", func() {}).Name("") }) == nil {
			return evid.Fail("empty-name", "Name(\"\") did not panic")
		}
		out.Classes = append(out.Classes, "bad:empty-name")
	case "dup-name":
		if len(c.Routes) > 0 {
			if mustPanic(func() { a.f.Get("/zz-dup-name", func() {}).Name(c.Routes[0].Name) }) == nil {
				return evid.Fail("dup-name", "registering a second route named %q did not panic", c.Routes[0].Name)
			}
			// the same path declared for another method and given the same name is
			// a second route asking for a taken name as well
			r0 := c.Routes[0]
			if d0, ok := a.byName[r0.Name]; ok && r0.Via == "get" {
				if mustPanic(func() { a.f.Patch(d0.Source(), func() {}).Name(r0.Name) }) == nil {
					return evid.Fail("dup-name", "PATCH %q named %q although GET %q holds that name: no panic", d0.Source(), r0.Name, d0.Source())
				}
			}
			out.Classes = append(out.Classes, "bad:dup-name")
		}
	case "unknown-name":
		if mustPanic(func() { a.f.URLPath("no-such-route", "a", "1") }) == nil {
			return evid.Fail("unknown-name", "URLPath of an unknown name did not panic")
		}
		// the same through a request's context (caught inside the handler: what
		// ServeHTTP does with a handler's panic is nobody's business here)
		var escaped interface{}
		a.probe = func(ctx flamego.Context) {
			escaped = mustPanic(func() { ctx.URLPath("no-such-route", "a", "1") })
		}
		a.f.ServeHTTP(httptest.NewRecorder(), rt.NewRequest("GET", "/zz-probe", nil))
		a.probe = nil
		if escaped == nil {
			return evid.Fail("unknown-name", "Context.URLPath of an unknown name did not panic")
		}
		out.Classes = append(out.Classes, "bad:unknown-name")
	}

	// ---- forward direction
	// every URL handed out is kept (next to a private copy of its bytes) and
	// looked at again when all other builds and requests are over: a string a
	// caller holds stays what it was
	type heldURL struct{ got, copy, name string }
	var held []heldURL
	defer func() {
		if out.Violation != "" {
			return
		}
		for _, h := range held {
			if h.got != h.copy {
				out = evid.Fail("url-changed-later", "URLPath(%q, ...) returned %q; after later builds and requests the same string value reads %q", h.name, h.copy, h.got)
				return
			}
		}
	}()
	for _, b := range c.Builds {
		d, ok := a.byName[b.Name]
		if !ok {
			continue
		}
		vals := map[string]string{}
		for _, kv := range b.Pairs {
			vals[kv[0]] = kv[1]
		}
		want := expected(d, vals, b.asked())
		got := a.f.URLPath(b.Name, pairsOf(b)...)
		held = append(held, heldURL{got, string(append([]byte(nil), got...)), b.Name})
		if want == "" && got == "/" {
			// a route that consists of one optional segment, built without it: the
			// request that used this form had the path "/", which is what comes
			// back here; the implementation's "" is accepted as well (below)
			got = ""
		}
		if got != want {
			return evid.Fail("substitution", "URLPath(%q, %v) of route %q = %q, exact single-pass substitution gives %q", b.Name, pairsOf(b), d.Canon(), got, want)
		}
		// the caller's list of pairs is the caller's: building twice from one and
		// the same slice (with room to spare behind it) gives the same URL and
		// leaves the slice alone
		orig := pairsOf(b)
		shared := append(make([]string, 0, len(orig)+6), orig...)
		first := a.f.URLPath(b.Name, shared...)
		second := a.f.URLPath(b.Name, shared...)
		if first != second {
			return evid.Fail("pairs-mutated", "URLPath(%q, pairs...) twice with the same slice: %q then %q; the slice was %q and is now %q", b.Name, first, second, orig, shared)
		}
		if fmt.Sprintf("%q", shared) != fmt.Sprintf("%q", orig) {
			// (reordered in place, say: every URL is right all the same)
			out.Classes = append(out.Classes, "pairs-slice-changed")
		}
		// through the context
		var viaCtx string
		ran := false
		a.probe = func(ctx flamego.Context) { ran = true; viaCtx = ctx.URLPath(b.Name, pairsOf(b)...) }
		a.f.ServeHTTP(httptest.NewRecorder(), rt.NewRequest("GET", "/zz-probe", nil))
		a.probe = nil
		if !ran {
			return evid.Fail("probe", "probe handler did not run")
		}
		if want == "" && viaCtx == "/" {
			viaCtx = ""
		}
		if viaCtx != want {
			return evid.Fail("context-urlpath", "Context.URLPath(%q, %v) = %q, Router.URLPath gives %q", b.Name, pairsOf(b), viaCtx, want)
		}
		nb := 0
		for _, s := range d.Segs {
			_, binds, _ := s.Classify()
			nb += len(binds)
			for _, e := range s.Elems {
				if len(e.Params) > 1 {
					out.NonTrivial = true
					out.Classes = append(out.Classes, "param-list")
				}
			}
		}
		if nb >= 2 {
			out.NonTrivial = true
			out.Classes = append(out.Classes, "multi-bind")
		}
		for _, kv := range b.Pairs {
			if strings.ContainsAny(kv[1], "{}") {
				out.NonTrivial = true
				out.Classes = append(out.Classes, "brace-value")
			}
		}
		if b.asked() {
			out.Classes = append(out.Classes, "with-optional")
		} else if b.WithOptional != "-" {
			out.Classes = append(out.Classes, "with-optional-not-true")
		}
		if strings.Contains(want, "{") {
			out.Classes = append(out.Classes, "unsupplied-or-brace")
		}
	}

	// ---- inverse direction
	for _, q := range c.Reqs {
		var gotURL [2]string
		var foreign []string
		var name string
		var params map[string]string
		a.seen = func(n string, ctx flamego.Context) {
			name = n
			params = map[string]string{}
			var pairs []string
			for k, v := range ctx.Params() {
				params[k] = v
				if k != "route" {
					pairs = append(pairs, k, v)
				}
			}
			gotURL[0] = ctx.URLPath(n, pairs...)
			gotURL[1] = ctx.URLPath(n, append(pairs, "withOptional", "true")...)
			// the builds of the case once more, from inside this request: what the
			// request itself was dispatched with (its own bind values, some under
			// names the target route uses too) has no say in another route's URL
			for _, b := range c.Builds {
				if _, ok := a.byName[b.Name]; ok {
					foreign = append(foreign, ctx.URLPath(b.Name, pairsOf(b)...))
				}
			}
		}
		rec := httptest.NewRecorder()
		a.f.ServeHTTP(rec, q.HTTP())
		a.seen = nil
		if name == "" {
			out.Classes = append(out.Classes, "inverse-not-dispatched")
			continue
		}
		fi := 0
		for _, b := range c.Builds {
			bd, ok := a.byName[b.Name]
			if !ok {
				continue
			}
			vals := map[string]string{}
			for _, kv := range b.Pairs {
				vals[kv[0]] = kv[1]
			}
			want, got := expected(bd, vals, b.asked()), foreign[fi]
			fi++
			if want == "" && got == "/" {
				got = ""
			}
			if got != want {
				return evid.Fail("context-urlpath", "inside a request for %q (served by %q with %s): Context.URLPath(%q, %v) of route %q = %q, exact single-pass substitution of the given pairs gives %q", q.P, a.byName[name].Canon(), rt.Show(params), b.Name, pairsOf(b), bd.Canon(), got, want)
			}
			for k := range params {
				if _, given := vals[k]; k != "route" && !given && bd.Canon() != a.byName[name].Canon() && strings.Contains(want, "{"+k+"}") {
					out.NonTrivial = true
					out.Classes = append(out.Classes, "built-inside-a-request-that-binds-an-unsupplied-name")
				}
			}
		}
		d := a.byName[name]
		// decoded reconstruction of the path: the route's own binds substituted
		// with the received values; the request used the optional segment iff
		// the long form explains the number of segments
		brace := false
		for k, v := range params {
			if k != "route" && strings.ContainsAny(v, "{}") {
				brace = true
			}
		}
		if brace {
			out.Classes = append(out.Classes, "inverse-skipped-brace-value")
			continue
		}
		wantShort := strings.TrimLeft(expected(d, params, false), "/")
		wantLong := strings.TrimLeft(expected(d, params, true), "/")
		decoded, decided := decodedPath(d, q.P)
		okShort := strings.TrimLeft(gotURL[0], "/") == wantShort
		okLong := strings.TrimLeft(gotURL[1], "/") == wantLong
		if !okShort || !okLong {
			return evid.Fail("inverse-substitution", "route %q served %q with %s; Context.URLPath gives %q / %q (withOptional), want %q / %q", d.Canon(), q.P, rt.Show(params), gotURL[0], gotURL[1], "/"+wantShort, "/"+wantLong)
		}
		if decided {
			if strings.TrimLeft(decoded, "/") != wantShort && strings.TrimLeft(decoded, "/") != wantLong {
				return evid.Fail("inverse-path", "route %q served %q with %s; rebuilding gives %q or %q, neither is the decoded request path %q", d.Canon(), q.P, rt.Show(params), "/"+wantShort, "/"+wantLong, decoded)
			}
			out.Classes = append(out.Classes, "inverse-checked")
			if strings.Contains(q.P, "%") {
				out.NonTrivial = true
				out.Classes = append(out.Classes, "inverse-escape")
			}
		}
	}
	return out
}

// decodedPath is the request path "up to the single percent-decoding of
// values", computed without looking at what the implementation delivered: the
// reference matcher aligns the path with the route on its own, every captured
// piece is decoded once (left raw if malformed) and put back into the route.
// false = not decided here: a path the reference does not align with this
// route. (The pieces of a regex segment are the submatches of the glued
// expression, which leftmost-first matching fixes.)
func decodedPath(d model.Route, p string) (string, bool) {
	mr, err := model.Compile(d, 0)
	if err != nil {
		return "", false
	}
	res := model.Match([]model.MRoute{mr}, p, nil, nil)
	if !res.Found {
		return "", false
	}
	vals := map[string]string{}
	for k, v := range res.Raw {
		vals[k] = model.Decode1(v)
	}
	return expected(d, vals, res.Form == model.Long), true
}

// ---- generator ---------------------------------------------------------------

var vias = []string{"get", "route", "routes", "any", "combo", "group", "nested", "nested"}

func genCase(t *rapid.T) Case {
	var c Case
	n := rapid.IntRange(1, 4).Draw(t, "nroutes")
	g := model.NewRegistrar()
	pool := gen.SegPoolW(t, 5, rapid.IntRange(0, 2).Draw(t, "wildspacing") == 0, [3]int{20, 40, 85})
	special := []string{
		"/s/{x: /[0-9]+/, capture: /[a-z]+/}", "/s2/{capture}", "/s3/{p: **, capture: 2}/{capture: /[0-9]+/}",
		"/s4/{year: /[0-9]{4}/}-{month: /[0-9]{2}/}-{day: /[0-9]{2}/}.html", "/s5/{name}/?events",
	}
	for i := 0; i < n; i++ {
		d := gen.Route(t, gen.RouteOpts{SegmentPool: pool})
		if rapid.IntRange(0, 7).Draw(t, "special") == 0 {
			d = rt.Deriv(special[rapid.IntRange(0, len(special)-1).Draw(t, "sp")])
		}
		ok := true
		for _, m := range model.Methods {
			if v, _ := g.Check(m, d); v != model.MustAccept {
				ok = false
			}
		}
		if !ok {
			continue
		}
		for _, m := range model.Methods {
			g.Add(m, d)
		}
		c.Routes = append(c.Routes, Named{Name: fmt.Sprintf("r%d", i), Via: vias[rapid.IntRange(0, len(vias)-1).Draw(t, "via")], R: d.Source()})
	}
	if len(c.Routes) == 0 {
		c.Routes = []Named{{Name: "r0", Via: "get", R: "/users/{name}"}}
	}
	nb := rapid.IntRange(1, 6).Draw(t, "nbuilds")
	for i := 0; i < nb; i++ {
		r := c.Routes[rapid.IntRange(0, len(c.Routes)-1).Draw(t, "br")]
		d := rt.Deriv(r.R)
		var binds []string
		for _, s := range d.Segs {
			_, b, _ := s.Classify()
			binds = append(binds, b...)
		}
		b := Build{Name: r.Name, WithOptional: []string{"-", "-", "true", "true", "false", "", "0"}[rapid.IntRange(0, 6).Draw(t, "wo")], OptFirst: rapid.Bool().Draw(t, "optfirst")}
		for _, bn := range binds {
			var v string
			switch rapid.IntRange(0, 8).Draw(t, "vk") {
			case 0:
				continue // absent
			case 1:
				v = ""
			case 2:
				v = gen.Values[rapid.IntRange(0, len(gen.Values)-1).Draw(t, "val")]
			case 3:
				v = "a/b"
			case 4:
				other := bn
				if len(binds) > 1 {
					other = binds[rapid.IntRange(0, len(binds)-1).Draw(t, "ob")]
				}
				v = "{" + other + "}"
			case 5:
				v = "x{" + bn + "}y"
			case 6:
				v = []string{"{", "}", "}{", "{}", "{{a}}", "{a", "a}"}[rapid.IntRange(0, 6).Draw(t, "bk")]
			case 7:
				v = "%41"
			default:
				v = rapid.StringMatching(`[a-z{}/%. ]{0,6}`).Draw(t, "free")
			}
			b.Pairs = append(b.Pairs, [2]string{bn, v})
		}
		if rapid.IntRange(0, 3).Draw(t, "unknown") == 0 {
			// a name the route does not bind: far from every bind, one character
			// away from one, or a literal of the route
			un := "nosuchbind"
			switch k := rapid.IntRange(0, 3).Draw(t, "unk"); {
			case k == 1 && len(binds) > 0:
				bn := binds[rapid.IntRange(0, len(binds)-1).Draw(t, "unb")]
				un = []string{bn + "2", bn[:len(bn)-1], "x" + bn, strings.ToUpper(bn)}[rapid.IntRange(0, 3).Draw(t, "unv")]
			case k == 2:
				for _, sg := range d.Segs {
					for _, e := range sg.Elems {
						if e.Lit != "" {
							un = e.Lit
						}
					}
				}
			}
			taken := un == "" || un == "route"
			for _, bn := range binds {
				if bn == un {
					taken = true
				}
			}
			if taken {
				un = "nosuchbind"
			}
			b.Pairs = append(b.Pairs, [2]string{un, []string{"{a}", "zz", "{" + un + "}"}[rapid.IntRange(0, 2).Draw(t, "unval")]})
		}
		// supplying order is part of the input
		b.Pairs = rapid.Permutation(b.Pairs).Draw(t, "porder")
		c.Builds = append(c.Builds, b)
	}
	// two builds of one route whose lists of pairs are different lists but read
	// alike once joined with a separator ("a","x","b","y/b/z" against
	// "a","x/b/y","b","z"): each call is answered from its own arguments
	for _, r := range c.Routes {
		if rapid.IntRange(0, 2).Draw(t, "collide") != 0 {
			continue
		}
		var binds []string
		for _, sg := range rt.Deriv(r.R).Segs {
			_, b, _ := sg.Classify()
			binds = append(binds, b...)
		}
		if len(binds) < 2 {
			continue
		}
		sep := []string{"/", ",", "=", "&", " ", "\x00"}[rapid.IntRange(0, 5).Draw(t, "csep")]
		pc := func(l string) string { return []string{"x", "y", "z", "", "12"}[rapid.IntRange(0, 4).Draw(t, l)] }
		p1, p2, p3 := pc("c1"), pc("c2"), pc("c3")
		a, b := binds[0], binds[1]
		first := Build{Name: r.Name, WithOptional: "-", Pairs: [][2]string{{a, p1}, {b, p2 + sep + b + sep + p3}}}
		second := Build{Name: r.Name, WithOptional: "-", Pairs: [][2]string{{a, p1 + sep + b + sep + p2}, {b, p3}}}
		if rapid.Bool().Draw(t, "corder") {
			first, second = second, first
		}
		c.Builds = append(c.Builds, first, second)
	}
	var regs []rt.Reg
	for _, r := range c.Routes {
		m := "GET"
		if r.Via == "route" {
			m = "POST"
		}
		regs = append(regs, rt.Reg{M: m, R: r.R})
	}
	c.Reqs = gen.Requests(t, regs, 6)
	c.Bad = []string{"", "", "empty-name", "dup-name", "unknown-name"}[rapid.IntRange(0, 4).Draw(t, "bad")]
	return c
}

func TestProp(t *testing.T) {
	evid.Rapid(t, "urlpath", 3000, 50000, func(t *rapid.T) {
		c := genCase(t)
		evid.Run(t, "urlpath", c, func() evid.Outcome { return checkCase(c) })
	})
}

func TestPinned(t *testing.T) {
	cases := []Case{
		{Routes: []Named{{Name: "ym", Via: "get", R: "/{y: /[0-9]{4}/, m: /[0-9]{2}/}"}},
			Builds: []Build{{Name: "ym", Pairs: [][2]string{{"y", "2021"}, {"m", "05"}}, WithOptional: "-"}},
			Reqs:   []rt.Req{{M: "GET", P: "/202105"}}},
		{Routes: []Named{{Name: "u", Via: "get", R: "/webapi/users/{name}/?events"}},
			Builds: []Build{{Name: "u", Pairs: [][2]string{{"name", "{name}"}}, WithOptional: "-"}, {Name: "u", Pairs: [][2]string{{"name", "x"}}, WithOptional: "true"}, {Name: "u", Pairs: [][2]string{{"name", "x"}}, WithOptional: "false"}}},
		{Routes: []Named{{Name: "xc", Via: "get", R: "/{x: /[0-9]+/, capture: /[a-z]+/}"}},
			Builds: []Build{{Name: "xc", Pairs: [][2]string{{"x", "1"}, {"capture", "z"}}, WithOptional: "-"}},
			Reqs:   []rt.Req{{M: "GET", P: "/12ab"}}},
		{Routes: []Named{{Name: "p", Via: "get", R: "/webapi/{paths: **, capture: 2}/files"}},
			Builds: []Build{{Name: "p", Pairs: [][2]string{{"paths", "src/lib"}, {"capture", "9"}}, WithOptional: "-"}},
			Reqs:   []rt.Req{{M: "GET", P: "/webapi/src/lib/files"}}},
		{Routes: []Named{{Name: "f", Via: "get", R: "/files/{name}"}},
			Reqs: []rt.Req{{M: "GET", P: "/files/a%20b+c"}, {M: "GET", P: "/files/c++"}, {M: "GET", P: "/files/%2B+"}}},
		{Routes: []Named{{Name: "ab", Via: "get", R: "/{a}-{b}"}},
			Builds: []Build{{Name: "ab", Pairs: [][2]string{{"a", "{b}"}, {"b", "{a}"}}, WithOptional: "-"}}},
	}
	for _, c := range cases {
		c := c
		evid.Run(t, "urlpath", c, func() evid.Outcome { return checkCase(c) })
	}
}

func TestReplay(t *testing.T) {
	evid.Replay(t, map[string]evid.ReplayFn{
		"urlpath": func(raw json.RawMessage) evid.Outcome {
			var c Case
			if err := json.Unmarshal(raw, &c); err != nil {
				panic(err)
			}
			return checkCase(c)
		},
	})
}

var _ = http.StatusOK

func js(v interface{}) string {
	b, _ := json.Marshal(v)
	return string(b)
}
