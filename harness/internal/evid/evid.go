// Package evid is the shared bookkeeping layer of the verification harness:
// it counts generated cases, classifies them, remembers the last (= shrunk)
// failing case, separates known findings from new violations and writes the
// per-shard result file the driver (/verif/check) merges into
// /verif/evidence/<ID>.json.
//
// Every property package follows the same shape:
//
//	func TestMain(m *testing.M) { evid.Main(m, "C06", rule, assumptions) }
//	func TestProp(t *testing.T) { evid.Rapid(t, "prop", 5000, 50000, func(t *rapid.T) {
//	        c := genCase(t); evid.Run(t, "prop", c, checkCase) }) }
//	func TestReplay(t *testing.T) { evid.Replay(t, map[string]evid.ReplayFn{...}) }
//
// where checkCase is a pure function of the (JSON serialisable) case.
package evid

import (
	"bufio"
	"encoding/binary"
	"encoding/json"
	"flag"
	"fmt"
	"hash/fnv"
	"os"
	"path/filepath"
	"runtime/debug"
	"sort"
	"strconv"
	"strings"
	"sync"
	"testing"
	"time"

	"pgregory.net/rapid"
)

// Outcome is what a checkCase function reports about one case.
type Outcome struct {
	// Violation is empty when the property held on this case.
	Violation string
	// Sig is a short root-cause signature used only to tell a listed known
	// finding from a new violation.
	Sig string
	// NonTrivial says whether the case is non-trivial by the property's rule.
	NonTrivial bool
	// Classes are histogram labels.
	Classes []string
	// Excluded counts sub-cases dropped because of a stated precondition.
	Excluded int
	// Sub is the number of elementary evaluations inside the case (e.g.
	// requests matched); 0 is counted as 1.
	Sub int
}

// Fail is a convenience constructor.
func Fail(sig, format string, args ...interface{}) Outcome {
	return Outcome{Violation: fmt.Sprintf(format, args...), Sig: sig}
}

type sample struct {
	Check   string          `json:"check"`
	Classes []string        `json:"classes,omitempty"`
	Case    json.RawMessage `json:"case"`
}

type failure struct {
	Check     string          `json:"check"`
	Property  string          `json:"property"`
	Violation string          `json:"violation"`
	Sig       string          `json:"sig"`
	Case      json.RawMessage `json:"case"`
}

type state struct {
	mu          sync.Mutex
	id          string
	rule        string
	assumptions []string
	start       time.Time

	evaluations int
	sub         int
	excluded    int
	classes     map[string]int
	perCheck    map[string]int
	hashes      map[uint64]struct{}
	samples     []sample
	sampleSeen  map[string]bool
	known       map[string]int // sig -> times hit
	violations  int
	lastFail    *failure
	exhaustive  map[string]interface{}
	notes       []string
	requested   map[string]int
	passed      map[string]int
}

var st = &state{
	classes:    map[string]int{},
	perCheck:   map[string]int{},
	hashes:     map[uint64]struct{}{},
	sampleSeen: map[string]bool{},
	known:      map[string]int{},
	exhaustive: map[string]interface{}{},
	requested:  map[string]int{},
	passed:     map[string]int{},
}

// inflight is the case being evaluated right now; the watchdog (when enabled)
// turns a case that does not return within the limit into a violation - for
// the properties that state termination. The limit is several orders of
// magnitude above the normal cost of a case.
var inflight struct {
	mu    sync.Mutex
	check string
	raw   []byte
	since time.Time
	on    bool
}

func begin(check string, raw []byte) {
	inflight.mu.Lock()
	inflight.check, inflight.raw, inflight.since, inflight.on = check, raw, time.Now(), true
	inflight.mu.Unlock()
}

func end() {
	inflight.mu.Lock()
	inflight.on = false
	inflight.mu.Unlock()
}

// Inflight marks the start of one enumerated input (bulk enumerations call it
// themselves; Run does it for serialised cases).
func Inflight(check string, c interface{}) {
	if !watchdogOn {
		return
	}
	raw, _ := json.Marshal(c)
	begin(check, raw)
}

// InflightDone marks the end of the current enumerated input.
func InflightDone() {
	if watchdogOn {
		end()
	}
}

var watchdogOn bool

var persistInflight bool

// PersistInflight makes Run write the case it is about to evaluate to
// $VERIF_OUT.inflight, so that the driver can name the case when the process
// dies before it can report (the race detector with halt_on_error).
func PersistInflight() { persistInflight = true }

// Watchdog enables the per-case non-termination check; call it before Main.
func Watchdog(limit time.Duration) {
	watchdogOn = true
	go func() {
		for {
			time.Sleep(time.Second)
			inflight.mu.Lock()
			on, since, check, raw := inflight.on, inflight.since, inflight.check, inflight.raw
			inflight.mu.Unlock()
			if !on || time.Since(since) < limit {
				continue
			}
			st.mu.Lock()
			st.violations++
			st.lastFail = &failure{Check: check, Property: st.id, Sig: "no-return",
				Violation: fmt.Sprintf("the case did not return within %s (normal cost: milliseconds)", limit), Case: raw}
			st.mu.Unlock()
			fmt.Printf("property %s violated (%s): case did not return within %s\ncase: %s\n", st.id, check, limit, raw)
			flush(1)
			os.Exit(1)
		}
	}()
}

// knownSigs holds "<ID> <sig>" pairs listed as `known:` in known_findings.txt.
var knownSigs = map[string]string{}

// Tier returns "quick" or "thorough".
func Tier() string {
	if os.Getenv("VERIF_TIER") == "thorough" {
		return "thorough"
	}
	return "quick"
}

// Thorough reports whether the thorough tier is running.
func Thorough() bool { return Tier() == "thorough" }

// Shard returns this process' shard index and the shard count.
func Shard() (int, int) {
	k, _ := strconv.Atoi(os.Getenv("VERIF_SHARD"))
	n, _ := strconv.Atoi(os.Getenv("VERIF_NSHARDS"))
	if n <= 0 {
		n = 1
	}
	return k, n
}

// Seed returns the user-visible VERIF_SEED (default 1).
func Seed() uint64 {
	s, err := strconv.ParseUint(os.Getenv("VERIF_SEED"), 10, 64)
	if err != nil {
		return 1
	}
	return s
}

// rapidSeed maps (VERIF_SEED, shard, check name) to a non-zero rapid seed.
func rapidSeed(name string) uint64 {
	k, _ := Shard()
	h := fnv.New64a()
	h.Write([]byte(name))
	s := Seed()*2654435761 + uint64(k)*0x9E3779B97F4A7C15 + h.Sum64()
	return s | 1
}

// VerifDir is /verif unless overridden (used by the driver for self tests).
func VerifDir() string {
	if d := os.Getenv("VERIF_DIR"); d != "" {
		return d
	}
	return "/verif"
}

func loadKnown(id string) {
	f, err := os.Open(filepath.Join(VerifDir(), "known_findings.txt"))
	if err != nil {
		return
	}
	defer f.Close()
	sc := bufio.NewScanner(f)
	for sc.Scan() {
		line := strings.TrimSpace(sc.Text())
		// known: property=C03 sig=<sig> <free text>
		if !strings.HasPrefix(line, "known:") {
			continue
		}
		fields := strings.Fields(strings.TrimPrefix(line, "known:"))
		var prop, sig string
		var rest []string
		for _, f := range fields {
			switch {
			case strings.HasPrefix(f, "property=") && prop == "":
				prop = strings.TrimPrefix(f, "property=")
			case strings.HasPrefix(f, "sig=") && sig == "":
				sig = strings.TrimPrefix(f, "sig=")
			default:
				rest = append(rest, f)
			}
		}
		if prop == id && sig != "" {
			knownSigs[sig] = strings.Join(rest, " ")
		}
	}
}

// Main is called from TestMain.
func Main(m *testing.M, id, rule string, assumptions []string) {
	flag.Parse()
	st.id = id
	st.rule = rule
	st.assumptions = assumptions
	st.start = time.Now()
	loadKnown(id)
	if !watchdogOn {
		// a case that never returns (a lock never released, an endless loop) is
		// a violation in every check, not a run that hangs until the test timeout
		Watchdog(120 * time.Second)
	}
	_ = flag.Set("rapid.nofailfile", "true")
	code := m.Run()
	flush(code)
	for _, f := range atExit {
		f()
	}
	os.Exit(code)
}

var atExit []func()

// AtExit registers clean-up that Main runs before it exits the process.
func AtExit(f func()) { atExit = append(atExit, f) }

// Rapid runs prop under rapid with the case count of the current tier and the
// seed derived from VERIF_SEED, the shard and the check name.
func Rapid(t *testing.T, name string, quickN, thoroughN int, prop func(*rapid.T)) {
	t.Helper()
	n := quickN
	if Thorough() {
		n = thoroughN
	}
	if v := os.Getenv("VERIF_CHECKS"); v != "" {
		if x, err := strconv.Atoi(v); err == nil && x > 0 {
			n = x
		}
	}
	if n <= 0 {
		t.Skip("not in this tier")
	}
	_ = flag.Set("rapid.checks", strconv.Itoa(n))
	_ = flag.Set("rapid.seed", strconv.FormatUint(rapidSeed(name), 10))
	st.mu.Lock()
	st.requested[name] += n
	before := st.perCheck[name]
	st.mu.Unlock()
	rapid.Check(t, prop)
	st.mu.Lock()
	st.passed[name] += st.perCheck[name] - before
	st.mu.Unlock()
}

// tbLike is satisfied by *testing.T and *rapid.T.
type tbLike interface {
	Helper()
	Fatalf(format string, args ...interface{})
	Logf(format string, args ...interface{})
}

// Run evaluates one case: it serialises it, calls check (converting a panic in
// the harness or the code under test into a violation), does the bookkeeping
// and fails t when the outcome is a violation that is not a listed known
// finding.
func Run(t tbLike, checkName string, c interface{}, check func() Outcome) {
	t.Helper()
	raw, err := json.Marshal(c)
	if err != nil {
		t.Fatalf("harness: case not serialisable: %v", err)
	}
	if watchdogOn {
		begin(checkName, raw)
	}
	if persistInflight {
		if p := os.Getenv("VERIF_OUT"); p != "" {
			f := failure{Check: checkName, Property: st.id, Sig: "in-flight", Violation: "in flight when the process stopped", Case: raw}
			if data, err := json.Marshal(f); err == nil {
				_ = os.WriteFile(p+".inflight", data, 0o644)
			}
		}
	}
	out := Protect(check)
	if watchdogOn {
		end()
	}
	record(checkName, raw, out)
	if out.Violation == "" {
		return
	}
	if desc, ok := knownSigs[out.Sig]; ok && out.Sig != "" {
		st.mu.Lock()
		st.known[out.Sig]++
		st.mu.Unlock()
		_ = desc
		return
	}
	st.mu.Lock()
	st.violations++
	st.lastFail = &failure{Check: checkName, Property: st.id, Violation: out.Violation, Sig: out.Sig, Case: raw}
	st.mu.Unlock()
	t.Fatalf("property %s violated (%s): %s\ncase: %s", st.id, checkName, out.Violation, raw)
}

// Protect runs check and turns a panic into a violation outcome.
func Protect(check func() Outcome) (out Outcome) {
	defer func() {
		if r := recover(); r != nil {
			out = Outcome{
				Violation: fmt.Sprintf("panic escaped: %v\n%s", r, trimStack(debug.Stack())),
				Sig:       "panic",
			}
		}
	}()
	return check()
}

func trimStack(b []byte) string {
	lines := strings.Split(string(b), "\n")
	if len(lines) > 40 {
		lines = lines[:40]
	}
	return strings.Join(lines, "\n")
}

func record(checkName string, raw []byte, out Outcome) {
	st.mu.Lock()
	defer st.mu.Unlock()
	st.evaluations++
	st.perCheck[checkName]++
	if out.Sub > 0 {
		st.sub += out.Sub
	} else {
		st.sub++
	}
	st.excluded += out.Excluded
	for _, c := range out.Classes {
		st.classes[c]++
	}
	if out.NonTrivial {
		h := fnv.New64a()
		h.Write([]byte(checkName))
		h.Write([]byte{0})
		h.Write(raw)
		st.hashes[h.Sum64()] = struct{}{}
	}
	// samples: the first two non-trivial cases of each check plus the first
	// case that shows each class, capped.
	if len(st.samples) < 12 && len(raw) < 4000 {
		want := false
		if out.NonTrivial && st.perSampleCount(checkName) < 2 {
			want = true
		}
		for _, c := range out.Classes {
			if !st.sampleSeen[c] {
				want = true
			}
		}
		if want {
			for _, c := range out.Classes {
				st.sampleSeen[c] = true
			}
			cp := append([]byte(nil), raw...)
			seenCls := map[string]bool{}
			var cls []string
			for _, c := range out.Classes {
				if !seenCls[c] {
					seenCls[c] = true
					cls = append(cls, c)
				}
			}
			sort.Strings(cls)
			st.samples = append(st.samples, sample{Check: checkName, Classes: cls, Case: cp})
		}
	}
}

func (s *state) perSampleCount(check string) int {
	n := 0
	for _, x := range s.samples {
		if x.Check == check {
			n++
		}
	}
	return n
}

// Count records evaluations that are not individually serialised (exhaustive
// enumerations): n evaluated, of which nt non-trivial and distinct by
// construction of the enumeration.
type Bulk struct {
	name   string
	n, nt  int
	cls    map[string]int
	sample []string
}

// NewBulk starts a bulk counter for an enumeration.
func NewBulk(name string) *Bulk { return &Bulk{name: name, cls: map[string]int{}} }

// Add counts one enumerated input; key must be unique within the enumeration.
func (b *Bulk) Add(key string, nonTrivial bool, classes ...string) {
	b.n++
	if nonTrivial {
		b.nt++
		if len(b.sample) < 6 && (b.nt%977 == 1) {
			b.sample = append(b.sample, key)
		}
	}
	for _, c := range classes {
		b.cls[c]++
	}
}

// Done merges the bulk counter into the process state. exhaustive describes
// the bound that was enumerated completely ("" when it was not).
func (b *Bulk) Done(exhaustive string) {
	st.mu.Lock()
	defer st.mu.Unlock()
	st.evaluations += b.n
	st.sub += b.n
	st.perCheck[b.name] += b.n
	for k, v := range b.cls {
		st.classes[k] += v
	}
	// enumerated inputs are distinct by construction: give each a synthetic
	// hash derived from its ordinal so that shards do not collide.
	k, _ := Shard()
	h := fnv.New64a()
	h.Write([]byte(b.name))
	base := h.Sum64() ^ (uint64(k) << 48)
	for i := 0; i < b.nt; i++ {
		st.hashes[base+uint64(i)*0x9E3779B97F4A7C15] = struct{}{}
	}
	for _, s := range b.sample {
		if len(st.samples) < 16 {
			raw, _ := json.Marshal(s)
			st.samples = append(st.samples, sample{Check: b.name, Case: raw})
		}
	}
	if exhaustive != "" {
		st.exhaustive[b.name] = map[string]interface{}{"bound": exhaustive, "inputs": b.n, "nontrivial": b.nt}
	}
}

// BulkFail records a violation found by an enumeration and fails the test.
func BulkFail(t *testing.T, checkName string, c interface{}, out Outcome) {
	t.Helper()
	raw, _ := json.Marshal(c)
	if _, ok := knownSigs[out.Sig]; ok && out.Sig != "" {
		st.mu.Lock()
		st.known[out.Sig]++
		st.mu.Unlock()
		return
	}
	st.mu.Lock()
	st.violations++
	st.lastFail = &failure{Check: checkName, Property: st.id, Violation: out.Violation, Sig: out.Sig, Case: raw}
	st.mu.Unlock()
	t.Fatalf("property %s violated (%s): %s\ncase: %s", st.id, checkName, out.Violation, raw)
}

// Note adds a free-text note to the evidence.
func Note(format string, args ...interface{}) {
	st.mu.Lock()
	st.notes = append(st.notes, fmt.Sprintf(format, args...))
	st.mu.Unlock()
}

// ReplayFn decodes a case and checks it.
type ReplayFn func(raw json.RawMessage) Outcome

// Replay runs the case file named by VERIF_REPLAY through the matching check.
func Replay(t *testing.T, fns map[string]ReplayFn) {
	path := os.Getenv("VERIF_REPLAY")
	if path == "" {
		t.Skip("no VERIF_REPLAY")
	}
	data, err := os.ReadFile(path)
	if err != nil {
		t.Fatalf("harness: %v", err)
	}
	var f failure
	if err := json.Unmarshal(data, &f); err != nil {
		t.Fatalf("harness: bad replay file: %v", err)
	}
	fn, ok := fns[f.Check]
	if !ok {
		t.Fatalf("harness: no check named %q in this package", f.Check)
	}
	if watchdogOn {
		begin(f.Check, f.Case)
	}
	out := Protect(func() Outcome { return fn(f.Case) })
	if watchdogOn {
		end()
	}
	record(f.Check, f.Case, out)
	if out.Violation != "" {
		st.mu.Lock()
		st.violations++
		st.lastFail = &failure{Check: f.Check, Property: st.id, Violation: out.Violation, Sig: out.Sig, Case: f.Case}
		st.mu.Unlock()
		t.Fatalf("replay: property %s violated: %s", st.id, out.Violation)
	}
	t.Logf("replay: property held on %s", path)
}

type shardResult struct {
	Property    string                 `json:"property"`
	Tier        string                 `json:"tier"`
	Seed        uint64                 `json:"seed"`
	Shard       int                    `json:"shard"`
	ExitCode    int                    `json:"exit_code"`
	WallS       float64                `json:"wall_s"`
	Evaluations int                    `json:"evaluations"`
	Sub         int                    `json:"elementary_evaluations"`
	Excluded    int                    `json:"excluded_by_precondition"`
	NonTrivial  int                    `json:"distinct_nontrivial"`
	Classes     map[string]int         `json:"classes"`
	PerCheck    map[string]int         `json:"per_check"`
	Requested   map[string]int         `json:"rapid_requested"`
	Passed      map[string]int         `json:"rapid_evaluated"`
	Samples     []sample               `json:"samples"`
	Known       map[string]int         `json:"known_hits"`
	KnownDesc   map[string]string      `json:"known_desc"`
	Violations  int                    `json:"violations"`
	Failure     *failure               `json:"failure,omitempty"`
	Exhaustive  map[string]interface{} `json:"exhaustive,omitempty"`
	Notes       []string               `json:"notes,omitempty"`
	Rule        string                 `json:"rule"`
	Assumptions []string               `json:"assumptions"`
}

func flush(code int) {
	out := os.Getenv("VERIF_OUT")
	if out == "" {
		return
	}
	st.mu.Lock()
	defer st.mu.Unlock()
	k, _ := Shard()
	res := shardResult{
		Property: st.id, Tier: Tier(), Seed: Seed(), Shard: k, ExitCode: code,
		WallS:       time.Since(st.start).Seconds(),
		Evaluations: st.evaluations, Sub: st.sub, Excluded: st.excluded,
		NonTrivial: len(st.hashes), Classes: st.classes, PerCheck: st.perCheck,
		Requested: st.requested, Passed: st.passed,
		Samples: st.samples, Known: st.known, KnownDesc: knownSigs,
		Violations: st.violations, Failure: st.lastFail,
		Exhaustive: st.exhaustive, Notes: st.notes,
		Rule: st.rule, Assumptions: st.assumptions,
	}
	data, _ := json.MarshalIndent(res, "", " ")
	_ = os.WriteFile(out, data, 0o644)
	// hash set for cross-shard distinct counting
	hf, err := os.Create(out + ".hashes")
	if err == nil {
		w := bufio.NewWriter(hf)
		var b [8]byte
		for h := range st.hashes {
			binary.LittleEndian.PutUint64(b[:], h)
			_, _ = w.Write(b[:])
		}
		_ = w.Flush()
		_ = hf.Close()
	}
}


// FuzzSeeds gives a native fuzz target that is driven through rapid.MakeFuzz a
// starting corpus: byte strings long enough for a few hundred draws (rapid
// reads 8 bytes per draw and gives up on a case when they run out). The bytes
// come from a fixed generator, so every campaign starts from the same corpus.
func FuzzSeeds(f *testing.F, n, size int) {
	x := uint64(0x9E3779B97F4A7C15)
	for i := 0; i < n; i++ {
		b := make([]byte, size)
		for j := range b {
			x ^= x << 13
			x ^= x >> 7
			x ^= x << 17
			b[j] = byte(x >> 24)
		}
		f.Add(b)
	}
}

// FuzzRun judges one case inside a native fuzz target: no bookkeeping, a
// violation (other than a listed known finding) fails the target with the case
// as JSON behind the word the driver looks for.
func FuzzRun(t tbLike, c interface{}, check func() Outcome) {
	out := Protect(check)
	if out.Violation == "" {
		return
	}
	if _, ok := knownSigs[out.Sig]; ok && out.Sig != "" {
		return
	}
	raw, _ := json.Marshal(c)
	t.Fatalf("VIOLATION-CASE %s\n%s", raw, out.Violation)
}
