package model

import (
	"net/http"
	"sort"
	"strings"
)

// Form says which form of a route matched.
type Form int

const (
	Long  Form = iota // all segments
	Short             // without the optional last segment
)

// entry is one matchable form of a registered route.
type entry struct {
	r    *MRoute
	form Form
	segs []MSeg
}

// Result is the outcome of the reference matcher.
type Result struct {
	Found bool
	Route *MRoute
	Form  Form
	// Raw holds, for every bind of the winning form, the raw (undecoded)
	// substring of the path it captured.
	Raw map[string]string
	// Align[i] is the number of path segments consumed by route segment i.
	Align []int
	// Backtracked counts abandoned alternatives that had admitted a segment.
	Backtracked int
}

// HeaderGate decides whether a form of a route is eligible for the headers of
// the request. The default gate applies the route's constraints to every form.
type HeaderGate func(r *MRoute, f Form, h http.Header) bool

// DefaultGate implements C09: every constrained header must be present with a
// non-empty value that the expression matches.
func DefaultGate(r *MRoute, _ Form, h http.Header) bool {
	for name, re := range r.Headers {
		v := h.Get(name)
		if v == "" || !re.MatchString(v) {
			return false
		}
	}
	return true
}

var emptySeg = MSeg{Kind: KStatic, Text: "/", Lit: ""}

func entries(routes []MRoute) []entry {
	var es []entry
	for i := range routes {
		r := &routes[i]
		es = append(es, entry{r: r, form: Long, segs: r.Segs})
		if r.Optional {
			short := r.Segs[:len(r.Segs)-1]
			if len(short) == 0 {
				short = []MSeg{emptySeg}
			}
			es = append(es, entry{r: r, form: Short, segs: short})
		}
	}
	return es
}

// SplitPath turns a request path into raw segments: leading slashes are
// ignored, a trailing slash is an extra empty segment.
func SplitPath(p string) []string {
	return strings.Split(strings.TrimLeft(p, "/"), "/")
}

type matcher struct {
	segs []string
	hdr  http.Header
	gate HeaderGate
	back int
}

// Match runs the reference matcher: the documented priority rules applied to
// the flat list of registered routes.
func Match(routes []MRoute, path string, hdr http.Header, gate HeaderGate) Result {
	if gate == nil {
		gate = DefaultGate
	}
	if hdr == nil {
		hdr = http.Header{}
	}
	m := &matcher{segs: SplitPath(path), hdr: hdr, gate: gate}
	vals := map[string]string{}
	e, align, ok := m.step(entries(routes), 0, 0, vals, nil)
	if !ok {
		return Result{Backtracked: m.back}
	}
	raw := map[string]string{}
	for _, s := range e.segs {
		for _, b := range s.Binds {
			raw[b] = vals[b]
		}
	}
	return Result{Found: true, Route: e.r, Form: e.form, Raw: raw, Align: align, Backtracked: m.back}
}

type group struct {
	text  string
	seg   *MSeg
	first int
	es    []entry
}

// step decides route segment rd against path segment pd among the candidate
// forms cands, all of which share the route segments before rd.
func (m *matcher) step(cands []entry, rd, pd int, vals map[string]string, align []int) (entry, []int, bool) {
	seg := m.segs[pd]
	last := pd == len(m.segs)-1

	if last {
		// candidates are the forms that end here
		var leaves []entry
		for _, e := range cands {
			if len(e.segs) == rd+1 {
				leaves = append(leaves, e)
			}
		}
		sort.SliceStable(leaves, func(i, j int) bool {
			ki, kj := leaves[i].segs[rd].Kind, leaves[j].segs[rd].Kind
			if ki != kj {
				return ki < kj
			}
			return leaves[i].r.Index < leaves[j].r.Index
		})
		for _, e := range leaves {
			s := &e.segs[rd]
			if s.admit(seg, vals) && m.gate(e.r, e.form, m.hdr) {
				return e, append(append([]int(nil), align...), 1), true
			}
		}
		return entry{}, nil, false
	}

	// forms that continue with further segments, grouped by this segment
	var groups []*group
	byText := map[string]*group{}
	for _, e := range cands {
		if len(e.segs) <= rd+1 {
			continue
		}
		s := &e.segs[rd]
		g, ok := byText[s.Text]
		if !ok {
			g = &group{text: s.Text, seg: s, first: e.r.Index}
			byText[s.Text] = g
			groups = append(groups, g)
		}
		if e.r.Index < g.first {
			g.first = e.r.Index
		}
		g.es = append(g.es, e)
	}
	sort.SliceStable(groups, func(i, j int) bool {
		if groups[i].seg.Kind != groups[j].seg.Kind {
			return groups[i].seg.Kind < groups[j].seg.Kind
		}
		return groups[i].first < groups[j].first
	})
	for _, g := range groups {
		if g.seg.Kind == KMatchAll {
			// fewest captured segments first; at least one segment must be left
			for k := 1; pd+k <= len(m.segs)-1; k++ {
				if g.seg.Capture > 0 && k > g.seg.Capture {
					break
				}
				vals[g.seg.Binds[0]] = strings.Join(m.segs[pd:pd+k], "/")
				e, al, ok := m.step(g.es, rd+1, pd+k, vals, append(append([]int(nil), align...), k))
				if ok {
					// restore this bind: deeper failed branches cannot touch it,
					// but keep the assignment explicit
					vals[g.seg.Binds[0]] = strings.Join(m.segs[pd:pd+k], "/")
					return e, al, true
				}
				m.back++
			}
			continue
		}
		if !g.seg.admit(seg, vals) {
			continue
		}
		snapshot := map[string]string{}
		for _, b := range g.seg.Binds {
			snapshot[b] = vals[b]
		}
		e, al, ok := m.step(g.es, rd+1, pd+1, vals, append(append([]int(nil), align...), 1))
		if ok {
			for b, v := range snapshot {
				vals[b] = v
			}
			return e, al, true
		}
		m.back++
	}

	// finally the match-all that ends a route here
	var ma []entry
	for _, e := range cands {
		if len(e.segs) == rd+1 && e.segs[rd].Kind == KMatchAll {
			ma = append(ma, e)
		}
	}
	sort.SliceStable(ma, func(i, j int) bool { return ma[i].r.Index < ma[j].r.Index })
	for _, e := range ma {
		s := &e.segs[rd]
		remaining := len(m.segs) - pd
		if s.Capture > 0 && remaining > s.Capture {
			continue
		}
		if !m.gate(e.r, e.form, m.hdr) {
			continue
		}
		vals[s.Binds[0]] = strings.Join(m.segs[pd:], "/")
		return e, append(append([]int(nil), align...), remaining), true
	}
	return entry{}, nil, false
}

// Admitting returns every (route, form) that admits the path on its own,
// ignoring priority: a brute force over all alignments. It is the independent
// cross-check of the "if and only if" half of C01.
func Admitting(routes []MRoute, path string, hdr http.Header, gate HeaderGate) []struct {
	Route *MRoute
	Form  Form
} {
	if gate == nil {
		gate = DefaultGate
	}
	if hdr == nil {
		hdr = http.Header{}
	}
	segs := SplitPath(path)
	var out []struct {
		Route *MRoute
		Form  Form
	}
	for _, e := range entries(routes) {
		if admits(e.segs, segs) && gate(e.r, e.form, hdr) {
			out = append(out, struct {
				Route *MRoute
				Form  Form
			}{e.r, e.form})
		}
	}
	return out
}

func admits(rs []MSeg, ps []string) bool {
	if len(rs) == 0 {
		return len(ps) == 0
	}
	if len(ps) == 0 {
		return false
	}
	s := &rs[0]
	if s.Kind == KMatchAll {
		for k := 1; k <= len(ps); k++ {
			if s.Capture > 0 && k > s.Capture {
				break
			}
			if admits(rs[1:], ps[k:]) {
				return true
			}
		}
		return false
	}
	if !s.admit(ps[0], nil) {
		return false
	}
	return admits(rs[1:], ps[1:])
}

// Decode1 percent-decodes a captured value once; a value with any malformed
// escape is left raw as a whole.
func Decode1(s string) string {
	var b strings.Builder
	for i := 0; i < len(s); i++ {
		c := s[i]
		if c != '%' {
			b.WriteByte(c)
			continue
		}
		if i+2 >= len(s) {
			return s
		}
		h, ok1 := unhex(s[i+1])
		l, ok2 := unhex(s[i+2])
		if !ok1 || !ok2 {
			return s
		}
		b.WriteByte(h<<4 | l)
		i += 2
	}
	return b.String()
}

func unhex(c byte) (byte, bool) {
	switch {
	case '0' <= c && c <= '9':
		return c - '0', true
	case 'a' <= c && c <= 'f':
		return c - 'a' + 10, true
	case 'A' <= c && c <= 'F':
		return c - 'A' + 10, true
	}
	return 0, false
}
