package model

// Accepts is a character-level recursive-descent recogniser of the route
// grammar documented in internal/route/README.md:
//
//	Route          = Segment+ .
//	Segment        = "/" "?"? SegmentElement* .
//	SegmentElement = <ident> | "{" <ident> "}" | "{" BindParameters "}" .
//	BindParameters = BindParameter ("," " "* BindParameter)* .
//	BindParameter  = <ident> ":" " "* BindParameterValue .
//	BindParameterValue = <ident> | "/" <regex> "/" .
//
// Terminal classes: <ident> is one or more of the README's <char> plus "$"
// (tree_test.go registers "/webapi/special/test@$"); <regex> is one or more of
// [a-zA-Z0-9*\-+._,?()\[\]{} \\|]; a blank is exactly U+0020.
func Accepts(s string) bool {
	_, ok := ParseRef(s)
	return ok
}

// ParseRef is the same recogniser returning the derivation it found. The
// grammar is unambiguous once identifiers are taken maximally.
func ParseRef(s string) (Route, bool) { return parseWith(s, false, false) }

// AcceptsDoc recognises the same grammar over the terminal classes exactly as
// the README's BNF spells them: <char> without "$", and <any> = <char> plus
// "[ ] + , ? { } \ |" and the blank inside a regex value - which additionally
// admits "~ @ ! & ' ; % =" there. Where Accepts and AcceptsDoc disagree the
// documentation contradicts itself (its second grammar refers to the lexer's
// classes) and a parser may go either way.
func AcceptsDoc(s string) bool {
	_, ok := parseWith(s, true, false)
	return ok
}

// AcceptsLoose recognises the README's second grammar read to the letter:
// "BindParameters = (BindParameter ("," " "* BindParameter)*)+" lets a further
// parameter follow without a comma (which can only be told apart behind a
// regex value; the first grammar demands the comma). Either terminal alphabet.
func AcceptsLoose(s string) bool {
	if _, ok := parseWith(s, false, true); ok {
		return true
	}
	_, ok := parseWith(s, true, true)
	return ok
}

func parseWith(s string, doc, loose bool) (Route, bool) {
	p := &rec{s: s, doc: doc, loose: loose}
	var r Route
	for {
		seg, ok := p.segment()
		if !ok {
			return Route{}, false
		}
		r.Segs = append(r.Segs, seg)
		if p.i >= len(p.s) {
			return r, true
		}
	}
}

// IsIdentChar reports whether c may appear in an <ident>.
func IsIdentChar(c byte) bool {
	switch {
	case 'a' <= c && c <= 'z', 'A' <= c && c <= 'Z', '0' <= c && c <= '9':
		return true
	}
	switch c {
	case '-', '.', '_', '~', '@', '!', '$', '&', '\'', '(', ')', '*', '+', ';', '%', '=':
		return true
	}
	return false
}

// IsRegexChar reports whether c may appear in a <regex>.
func IsRegexChar(c byte) bool {
	switch {
	case 'a' <= c && c <= 'z', 'A' <= c && c <= 'Z', '0' <= c && c <= '9':
		return true
	}
	switch c {
	case '*', '-', '+', '.', '_', ',', '?', '(', ')', '[', ']', '{', '}', ' ', '\\', '|':
		return true
	}
	return false
}

type rec struct {
	s     string
	i     int
	doc   bool // terminal classes of the README's BNF instead of the lexer's
	loose bool // a parameter may follow a regex value without a comma
}

func (p *rec) identChar(c byte) bool {
	if p.doc {
		return c != '$' && IsIdentChar(c)
	}
	return IsIdentChar(c)
}

func (p *rec) regexChar(c byte) bool {
	if p.doc {
		return IsRegexChar(c) || (c != '$' && IsIdentChar(c))
	}
	return IsRegexChar(c)
}

func (p *rec) peek() (byte, bool) {
	if p.i < len(p.s) {
		return p.s[p.i], true
	}
	return 0, false
}

func (p *rec) eat(c byte) bool {
	if p.i < len(p.s) && p.s[p.i] == c {
		p.i++
		return true
	}
	return false
}

func (p *rec) ident() (string, bool) {
	j := p.i
	for p.i < len(p.s) && p.identChar(p.s[p.i]) {
		p.i++
	}
	return p.s[j:p.i], p.i > j
}

func (p *rec) blanks() int {
	n := 0
	for p.eat(' ') {
		n++
	}
	return n
}

func (p *rec) segment() (Seg, bool) {
	var seg Seg
	if !p.eat('/') {
		return seg, false
	}
	seg.Optional = p.eat('?')
	for {
		c, ok := p.peek()
		if !ok || c == '/' {
			return seg, true
		}
		e, ok := p.element()
		if !ok {
			return seg, false
		}
		seg.Elems = append(seg.Elems, e)
	}
}

func (p *rec) element() (Elem, bool) {
	if id, ok := p.ident(); ok {
		return Elem{Lit: id}, true
	}
	if !p.eat('{') {
		return Elem{}, false
	}
	name, ok := p.ident()
	if !ok {
		return Elem{}, false
	}
	if p.eat('}') {
		return Elem{Bind: name}, true
	}
	// parameter list; the first name has been consumed
	e := Elem{Params: []Param{}}
	lead := 0
	for {
		if !p.eat(':') {
			return Elem{}, false
		}
		prm := Param{Name: name, Lead: lead}
		prm.Blanks = p.blanks()
		v, isRe, ok := p.value()
		if !ok {
			return Elem{}, false
		}
		prm.Value, prm.IsRegex = v, isRe
		e.Params = append(e.Params, prm)
		if p.eat('}') {
			return e, true
		}
		if !p.eat(',') {
			if !(p.loose && isRe) {
				return Elem{}, false
			}
			lead = 0
		} else {
			lead = p.blanks()
		}
		name, ok = p.ident()
		if !ok {
			return Elem{}, false
		}
	}
}

func (p *rec) value() (string, bool, bool) {
	if id, ok := p.ident(); ok {
		return id, false, true
	}
	if !p.eat('/') {
		return "", false, false
	}
	j := p.i
	for p.i < len(p.s) && p.regexChar(p.s[p.i]) {
		p.i++
	}
	if p.i == j {
		return "", false, false
	}
	v := p.s[j:p.i]
	return v, true, p.eat('/')
}
