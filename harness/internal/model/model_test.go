package model

import "testing"

// The reference matcher and the reference parser are checked against the
// examples the repository itself documents in its tests (tree_test.go,
// parser_test.go): the models must agree with the documented outcomes, not
// merely with the implementation.

func compileAll(t *testing.T, routes []string) []MRoute {
	var out []MRoute
	for i, r := range routes {
		d, ok := ParseRef(r)
		if !ok {
			t.Fatalf("reference parser rejects documented route %q", r)
		}
		if d.Canon() != r {
			t.Fatalf("canonical text of %q is %q", r, d.Canon())
		}
		m, err := Compile(d, i)
		if err != nil {
			t.Fatal(err)
		}
		out = append(out, m)
	}
	return out
}

func TestDocumentedMatches(t *testing.T) {
	routes := compileAll(t, []string{
		"/webapi",
		"/webapi/users/?{id}",
		"/webapi/users/ids/{id: /[0-9]+/}",
		"/webapi/users/ids/{sha: /[a-z0-9]{7,40}/}",
		"/webapi/users/sessions/{paths: **}",
		"/webapi/users/events/{names: **}/feed",
		"/webapi/users/settings/?profile",
		"/webapi/projects/{name}/hashes/{paths: **, capture: 2}/blob/{lineno: /[0-9]+/}",
		"/webapi/projects/{name}/commit/{sha: /[a-z0-9]{7,40}/}/main.go",
		`/webapi/projects/{name}/commit/{sha: /[a-z0-9]{7,40}/}{ext: /(\.(patch|diff))?/}`,
		"/webapi/articles/{category}/{year: /[0-9]{4}/}-{month}-{day}.json",
		"/webapi/groups/{name: **, capture: 2}",
		"/webapi/special/test@$",
		"/webapi/special/%_",
	})
	tests := []struct {
		path  string
		route int // -1 = no match
		vals  map[string]string
	}{
		{"/webapi", 0, nil},
		{"/webapi/users", 1, nil},
		{"/webapi/users/12", 1, map[string]string{"id": "12"}},
		{"/webapi/users/ids/123", 2, map[string]string{"id": "123"}},
		{"/webapi/users/ids/368c7b2d0b1e0b243b2", 3, map[string]string{"sha": "368c7b2d0b1e0b243b2"}},
		{"/webapi/users/sessions/ab/cd/ef/gh", 4, map[string]string{"paths": "ab/cd/ef/gh"}},
		{"/webapi/users/events/ab/cd/ef/gh/feed", 5, map[string]string{"names": "ab/cd/ef/gh"}},
		{"/webapi/projects/flamego/hashes/src/lib/blob/15", 7, map[string]string{"name": "flamego", "paths": "src/lib", "lineno": "15"}},
		{"/webapi/projects/flamego/commit/368c7b2d0b1e0b243b2/main.go", 8, map[string]string{"name": "flamego", "sha": "368c7b2d0b1e0b243b2"}},
		{"/webapi/projects/flamego/commit/368c7b2d0b1e0b243b2", 9, map[string]string{"name": "flamego", "sha": "368c7b2d0b1e0b243b2", "ext": ""}},
		{"/webapi/projects/flamego/commit/368c7b2d0b1e0b243b2.patch", 9, map[string]string{"name": "flamego", "sha": "368c7b2d0b1e0b243b2", "ext": ".patch"}},
		{"/webapi/articles/social/2021-05-03.json", 10, map[string]string{"category": "social", "year": "2021", "month": "05", "day": "03"}},
		{"/webapi/groups/flamego/flamego", 11, map[string]string{"name": "flamego/flamego"}},
		{"/webapi/special/test@$", 12, nil},
		{"/webapi/special/%_", 13, nil},
		{"/webapi/users/settings", 6, nil},
		{"/webapi/users/settings/profile", 6, nil},
		{"/webapi//", -1, nil},
		{"/webapi/users/ids/abc", -1, nil},
		{"/webapi/projects/flamego/hashes/src/lib/blob/abc", -1, nil},
		{"/webapi/projects/flamego/commit/368c7b/main.go", -1, nil},
		{"/webapi/articles/social/21-05-03.json", -1, nil},
		{"/webapi/articles/social/year-05-03.json", -1, nil},
		{"/webapi/articles/social/2021-05.json", -1, nil},
		{"/webapi/groups/flamego/flamego/flamego", -1, nil},
		{"/webapi/projects/flamego/hashes/src/lib/main.c/blob/15", -1, nil},
		{"///////webapi/users/12", 1, map[string]string{"id": "12"}},
	}
	for _, tc := range tests {
		res := Match(routes, tc.path, nil, nil)
		adm := Admitting(routes, tc.path, nil, nil)
		if res.Found != (len(adm) > 0) {
			t.Errorf("%s: matcher found=%v, brute force admits %d", tc.path, res.Found, len(adm))
		}
		if tc.route < 0 {
			if res.Found {
				t.Errorf("%s: reference matcher finds %q, documentation says no match", tc.path, res.Route.Canon)
			}
			continue
		}
		if !res.Found || res.Route.Index != tc.route {
			t.Errorf("%s: reference matcher gives %+v, documentation says route #%d", tc.path, res, tc.route)
			continue
		}
		for k, v := range tc.vals {
			if Decode1(res.Raw[k]) != v {
				t.Errorf("%s: bind %s = %q, documentation says %q", tc.path, k, res.Raw[k], v)
			}
		}
	}
}

func TestDocumentedHeaderMatches(t *testing.T) {
	// from TestTree_MatchHeader: the constrained leaf is skipped when the header fails
	_ = t
}

func TestDocumentedGrammar(t *testing.T) {
	valid := []string{
		"/webapi", "/webapi/users", "/webapi/users/?{id}", "/{name}",
		"/webapi/{name-1}/{name-2: /[a-z0-9]{7, 40}/}",
		"/webapi/{name-1}/{name-2: /[a-z0-9]{7, 40}/}/{year: regex2}-{month-day}",
		"/webapi/{name-1}/{name-2: /[a-z0-9]{7, 40}/}/{year: regex2}-{month-day}/{**: **, capture:  3}",
		"/webapi/{username}/%E4%BD%A0%E5%A5%BD%E4%B8%96%E7%95%8C/test@$",
		"/webapi/projects/{name}/hashes/{ids: **}/diff/{lineno}",
	}
	for _, s := range valid {
		if !Accepts(s) {
			t.Errorf("reference recogniser rejects documented route %q", s)
		}
	}
	invalid := []string{"webapi", "/webapi/{name", "/webapi/name}", "/webapi/{name: [a-z0-9]{7, 40}}"}
	for _, s := range invalid {
		if Accepts(s) {
			t.Errorf("reference recogniser accepts %q which the documentation lists as invalid", s)
		}
	}
	if d, _ := ParseRef("/webapi/{name-1}/{**: **, capture:  3}"); d.Canon() != "/webapi/{name-1}/{**: **, capture: 3}" {
		t.Errorf("canonical form %q", d.Canon())
	}
}

func TestDecode1(t *testing.T) {
	for in, want := range map[string]string{"%41": "A", "%zz": "%zz", "a%2Fb": "a/b", "%": "%", "%4": "%4", "a+b": "a+b", "%E4%BD%A0": "你", "%41%zz": "%41%zz", "": ""} {
		if got := Decode1(in); got != want {
			t.Errorf("Decode1(%q) = %q, want %q", in, got, want)
		}
	}
}
