// Package model holds the reference models the oracles are built from. They
// are written from the property statements and the repository documentation
// (README EBNF, doc comments), not from the code under test.
package model

import (
	"fmt"
	"regexp"
	"strconv"
	"strings"
)

// Param is one `name: value` pair of a bind-parameter list.
type Param struct {
	Name    string `json:"n"`
	IsRegex bool   `json:"re,omitempty"`
	Value   string `json:"v"`           // regex text (without slashes) or literal
	Blanks  int    `json:"b,omitempty"` // blanks after ':' in the source text
	Lead    int    `json:"l,omitempty"` // blanks after the preceding ',' (ignored for the first)
}

// Elem is one segment element: a literal, `{bind}` or `{p1: v1, p2: v2}`.
type Elem struct {
	Lit    string  `json:"lit,omitempty"`
	Bind   string  `json:"bind,omitempty"`
	Params []Param `json:"params,omitempty"`
}

// Seg is one `/`-introduced segment.
type Seg struct {
	Optional bool   `json:"opt,omitempty"`
	Elems    []Elem `json:"e,omitempty"`
}

// Route is a derivation of the route grammar.
type Route struct {
	Segs []Seg `json:"segs"`
}

func (e Elem) text(canon bool) string {
	switch {
	case e.Params != nil:
		var b strings.Builder
		b.WriteString("{")
		for i, p := range e.Params {
			if i > 0 {
				b.WriteString(",")
				if canon {
					b.WriteString(" ")
				} else {
					b.WriteString(strings.Repeat(" ", p.Lead))
				}
			}
			b.WriteString(p.Name)
			b.WriteString(":")
			if canon {
				b.WriteString(" ")
			} else {
				b.WriteString(strings.Repeat(" ", p.Blanks))
			}
			if p.IsRegex {
				b.WriteString("/" + p.Value + "/")
			} else {
				b.WriteString(p.Value)
			}
		}
		b.WriteString("}")
		return b.String()
	case e.Bind != "":
		return "{" + e.Bind + "}"
	default:
		return e.Lit
	}
}

func (s Seg) text(canon bool) string {
	var b strings.Builder
	b.WriteString("/")
	if s.Optional {
		b.WriteString("?")
	}
	for _, e := range s.Elems {
		b.WriteString(e.text(canon))
	}
	return b.String()
}

// Source is the text as written (with the drawn spacing).
func (r Route) Source() string {
	var b strings.Builder
	for _, s := range r.Segs {
		b.WriteString(s.text(false))
	}
	return b.String()
}

// Canon is the canonical text: one blank after ':' and ','.
func (r Route) Canon() string {
	var b strings.Builder
	for _, s := range r.Segs {
		b.WriteString(s.text(true))
	}
	return b.String()
}

// Canon is the canonical text of the segment.
func (s Seg) Canon() string { return s.text(true) }

// Kind is the matching kind of a segment.
type Kind int

const (
	KStatic Kind = iota + 1 // also the empty segment (literal "")
	KRegex
	KPlaceholder
	KMatchAll
	KUnclassified // shapes the documentation does not classify
)

func (k Kind) String() string {
	return [...]string{"?", "static", "regex", "placeholder", "matchall", "unclassified"}[k]
}

// Classify returns the kind of the segment, the bind names it introduces (in
// order) and, for a match-all, its capture limit (0 = unlimited).
func (s Seg) Classify() (k Kind, binds []string, capture int) {
	if len(s.Elems) == 0 {
		return KStatic, nil, 0
	}
	if len(s.Elems) == 1 {
		e := s.Elems[0]
		switch {
		case e.Params == nil && e.Bind == "":
			return KStatic, nil, 0
		case e.Bind == "**":
			return KMatchAll, []string{"**"}, 0
		case e.Bind != "":
			return KPlaceholder, []string{e.Bind}, 0
		}
		// parameter list
		p := e.Params
		if !p[0].IsRegex && p[0].Value == "**" {
			switch {
			case len(p) == 1:
				return KMatchAll, []string{p[0].Name}, 0
			case len(p) == 2 && p[1].Name == "capture" && !p[1].IsRegex:
				n, err := strconv.Atoi(p[1].Value)
				if err != nil {
					return KUnclassified, nil, 0
				}
				if n < 0 {
					// "non-positive means unlimited" (comment on the capture field in
					// internal/route/leaf.go); whether such a route must be accepted is
					// left open by the registration model (OddCapture)
					n = 0
				}
				return KMatchAll, []string{p[0].Name}, n
			default:
				return KUnclassified, nil, 0
			}
		}
	}
	// several elements, or a list of regex-valued parameters
	for _, e := range s.Elems {
		switch {
		case e.Params != nil:
			for _, p := range e.Params {
				if !p.IsRegex {
					return KUnclassified, nil, 0
				}
				binds = append(binds, p.Name)
			}
		case e.Bind == "**":
			return KUnclassified, nil, 0
		case e.Bind != "":
			binds = append(binds, e.Bind)
		}
	}
	if len(binds) == 0 {
		// cannot happen: adjacent literals merge into one token
		return KUnclassified, nil, 0
	}
	return KRegex, binds, 0
}

// Exprs returns the user expressions of the segment.
func (s Seg) Exprs() []string {
	var out []string
	for _, e := range s.Elems {
		for _, p := range e.Params {
			if p.IsRegex {
				out = append(out, p.Value)
			}
		}
	}
	return out
}

// MSeg is a compiled segment of the reference matcher.
type MSeg struct {
	Kind    Kind
	Text    string // canonical text, the identity of the segment among siblings
	Lit     string
	Binds   []string
	Capture int
	re      *regexp.Regexp
	groups  []string // group name per bind
}

// MRoute is a route as the reference matcher sees it.
type MRoute struct {
	Index int // registration index
	Canon string
	Segs  []MSeg
	// Optional reports whether the last segment is optional.
	Optional bool
	// Headers are the header constraints (nil = none). Key = header name.
	Headers map[string]*regexp.Regexp
}

// CompileSeg compiles one segment for the reference matcher.
func CompileSeg(s Seg) (MSeg, error) {
	k, binds, capture := s.Classify()
	ms := MSeg{Kind: k, Text: (Seg{Elems: s.Elems}).Canon(), Binds: binds, Capture: capture}
	switch k {
	case KStatic:
		if len(s.Elems) == 1 {
			ms.Lit = s.Elems[0].Lit
		}
	case KRegex:
		for _, x := range s.Exprs() {
			if _, err := regexp.Compile(x); err != nil {
				return ms, fmt.Errorf("expression %q does not compile on its own: %v", x, err)
			}
		}
		var b strings.Builder
		b.WriteString("^")
		n := 0
		for _, e := range s.Elems {
			switch {
			case e.Params != nil:
				for _, p := range e.Params {
					g := fmt.Sprintf("b%d", n)
					n++
					ms.groups = append(ms.groups, g)
					b.WriteString("(?P<" + g + ">" + p.Value + ")")
				}
			case e.Bind != "":
				g := fmt.Sprintf("b%d", n)
				n++
				ms.groups = append(ms.groups, g)
				b.WriteString("(?P<" + g + ">.+)")
			default:
				b.WriteString(regexp.QuoteMeta(e.Lit))
			}
		}
		b.WriteString("$")
		re, err := regexp.Compile(b.String())
		if err != nil {
			return ms, err
		}
		ms.re = re
	case KUnclassified:
		return ms, fmt.Errorf("unclassified segment %q", ms.Text)
	}
	return ms, nil
}

// Compile compiles a derivation.
func Compile(r Route, index int) (MRoute, error) {
	m := MRoute{Index: index, Canon: r.Canon()}
	for i, s := range r.Segs {
		ms, err := CompileSeg(s)
		if err != nil {
			return m, err
		}
		if s.Optional {
			if i != len(r.Segs)-1 {
				return m, fmt.Errorf("inner optional segment")
			}
			m.Optional = true
		}
		m.Segs = append(m.Segs, ms)
	}
	return m, nil
}

// admit reports whether the segment admits one raw path segment and returns
// the raw captured pieces by bind name.
func (s *MSeg) admit(seg string, vals map[string]string) bool {
	switch s.Kind {
	case KStatic:
		return s.Lit == seg
	case KPlaceholder:
		if vals != nil {
			vals[s.Binds[0]] = seg
		}
		return true
	case KMatchAll:
		if vals != nil {
			vals[s.Binds[0]] = seg
		}
		return true
	case KRegex:
		m := s.re.FindStringSubmatch(seg)
		if m == nil {
			return false
		}
		if vals != nil {
			for i, g := range s.groups {
				vals[s.Binds[i]] = m[s.re.SubexpIndex(g)]
			}
		}
		return true
	}
	return false
}

// OddCapture reports whether the route spells a capture limit that is not a
// positive number (0, negative): the documentation of routes only shows
// positive limits.
func (r Route) OddCapture() bool {
	for _, s := range r.Segs {
		for _, e := range s.Elems {
			if len(e.Params) == 2 && e.Params[1].Name == "capture" && !e.Params[1].IsRegex {
				if n, err := strconv.Atoi(e.Params[1].Value); err == nil && n <= 0 {
					return true
				}
			}
		}
	}
	return false
}
