package model

import (
	"regexp"
	"strings"
)

// Verdict is the three-valued answer of the registration validity model.
type Verdict int

const (
	MustAccept Verdict = iota
	MustReject
	Either // the statement does not classify this registration
)

func (v Verdict) String() string { return [...]string{"MUST_ACCEPT", "MUST_REJECT", "EITHER"}[v] }

// Methods are the nine HTTP methods the router knows.
var Methods = []string{"GET", "POST", "PUT", "DELETE", "PATCH", "OPTIONS", "HEAD", "CONNECT", "TRACE"}

// ExpandMethod returns the method trees a registration under `method` goes to
// (nil when the method is unknown).
func ExpandMethod(method string) []string {
	m := strings.ToUpper(method)
	if m == "*" {
		return Methods
	}
	for _, x := range Methods {
		if x == m {
			return []string{x}
		}
	}
	return nil
}

// ExpandMethods is ExpandMethod for a comma list as Routes() takes it: blanks
// around the names are ignored (nil when any name is unknown).
func ExpandMethods(list string) []string {
	var out []string
	seen := map[string]bool{}
	for _, part := range strings.Split(list, ",") {
		ms := ExpandMethod(strings.TrimSpace(part))
		if ms == nil {
			return nil
		}
		for _, m := range ms {
			if !seen[m] {
				seen[m] = true
				out = append(out, m)
			}
		}
	}
	return out
}

// Registrar tracks, per method, the routes accepted so far and classifies a
// new registration according to the clauses of C08.
type Registrar struct {
	byMethod map[string][]Route
}

// NewRegistrar returns an empty registrar.
func NewRegistrar() *Registrar { return &Registrar{byMethod: map[string][]Route{}} }

// Routes returns the accepted routes of a method in registration order.
func (g *Registrar) Routes(method string) []Route { return g.byMethod[method] }

// keyOf is the identity of a route form: the canonical texts of its segments
// (the optional marker does not take part: "/a/?b" and "/a/b" are the same
// long form).
func keyOf(segs []Seg) string {
	var b strings.Builder
	for _, s := range segs {
		b.WriteString((Seg{Elems: s.Elems}).Canon())
	}
	if len(segs) == 0 {
		return "/"
	}
	return b.String()
}

// form is one matchable form of a route. flagged marks the long form of a
// route whose last segment carries the optional marker.
type form struct {
	key     string
	flagged bool
}

func forms(r Route) []form {
	n := len(r.Segs)
	opt := n > 0 && r.Segs[n-1].Optional
	out := []form{{key: keyOf(r.Segs), flagged: opt}}
	if opt {
		out = append(out, form{key: keyOf(r.Segs[:n-1])})
	}
	return out
}

// CheckShape classifies a route on its own (independent of what is
// registered). reason is a short clause name.
func CheckShape(r Route) (Verdict, string) {
	if len(r.Segs) == 0 {
		return MustReject, "grammar"
	}
	seen := map[string]bool{}
	midMatchAll := 0
	unclassified := false
	for i, s := range r.Segs {
		last := i == len(r.Segs)-1
		if s.Optional && !last {
			return MustReject, "inner-optional"
		}
		if len(s.Elems) == 0 && !last {
			return MustReject, "inner-empty"
		}
		if len(s.Elems) == 0 && s.Optional {
			unclassified = true // "/a/?" - an optional empty segment
		}
		for _, x := range s.Exprs() {
			if _, err := regexp.Compile(x); err != nil {
				return MustReject, "expr-compile"
			}
		}
		k, binds, _ := s.Classify()
		if k == KUnclassified {
			unclassified = true
			// still collect names for the duplicate-bind clause
			for _, e := range s.Elems {
				if e.Bind != "" {
					binds = append(binds, e.Bind)
				}
				for _, p := range e.Params {
					if p.IsRegex || p.Value == "**" {
						binds = append(binds, p.Name)
					}
				}
			}
		}
		for _, b := range binds {
			if seen[b] {
				return MustReject, "dup-bind"
			}
			seen[b] = true
		}
		if k == KMatchAll && !last {
			midMatchAll++
		}
	}
	if midMatchAll >= 2 {
		return MustReject, "two-mid-matchall"
	}
	if unclassified {
		return Either, "unclassified"
	}
	if seen["route"] {
		return Either, "reserved-bind"
	}
	return MustAccept, ""
}

// Check classifies registering r under one concrete method tree.
func (g *Registrar) Check(method string, r Route) (Verdict, string) {
	v, why := CheckShape(r)
	if v == MustReject {
		return v, why
	}
	existing := g.byMethod[method]
	// duplicate of a registered form
	mine := forms(r)
	twin := false
	for _, e := range existing {
		for _, ef := range forms(e) {
			for _, mf := range mine {
				if ef.key != mf.key {
					continue
				}
				if ef.flagged == mf.flagged {
					return MustReject, "duplicate"
				}
				// "/a/?b" against "/a/b": the same paths, different texts; the
				// statement does not say whether that is "the same route".
				twin = true
			}
		}
	}
	// two different match-alls at one position
	clash := false
	soft := false
	for fi, segs := range [][]Seg{r.Segs, shortOf(r)} {
		if segs == nil {
			continue
		}
		_ = fi
		for i, s := range segs {
			k, _, _ := s.Classify()
			if k != KMatchAll {
				continue
			}
			mineLeaf := i == len(segs)-1
			prefix := keyOf(segs[:i])
			if i == 0 {
				prefix = ""
			}
			for _, e := range existing {
				for _, es := range [][]Seg{e.Segs, shortOf(e)} {
					if es == nil || len(es) <= i {
						continue
					}
					ep := keyOf(es[:i])
					if i == 0 {
						ep = ""
					}
					if ep != prefix {
						continue
					}
					ek, _, _ := es[i].Classify()
					if ek != KMatchAll {
						continue
					}
					if (Seg{Elems: es[i].Elems}).Canon() == (Seg{Elems: s.Elems}).Canon() {
						continue // the same match-all: shared
					}
					theirLeaf := i == len(es)-1
					if theirLeaf == mineLeaf {
						clash = true
					} else {
						soft = true
					}
				}
			}
		}
	}
	if clash {
		return MustReject, "matchall-clash"
	}
	if v == Either {
		return Either, why
	}
	if twin {
		// "/a/?b" next to "/a/b": the long form of the one is the other, i.e. the
		// same route is already registered (the router used to accept it, F12)
		return MustReject, "optional-twin"
	}
	if soft {
		return Either, "matchall-leaf-vs-subtree"
	}
	if r.OddCapture() {
		return Either, "odd-capture"
	}
	return MustAccept, ""
}

func shortOf(r Route) []Seg {
	n := len(r.Segs)
	if n == 0 || !r.Segs[n-1].Optional {
		return nil
	}
	if n == 1 {
		return []Seg{{}}
	}
	return r.Segs[:n-1]
}

// Add records an accepted registration.
func (g *Registrar) Add(method string, r Route) {
	g.byMethod[method] = append(g.byMethod[method], r)
}
