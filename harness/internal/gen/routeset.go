package gen

import (
	"pgregory.net/rapid"
	"strings"

	"github.com/flamego/flamego/verifharness/internal/model"
	"github.com/flamego/flamego/verifharness/internal/rt"
)

// SetOpts tunes RouteSet.
type SetOpts struct {
	MaxRoutes int // default 8
	Methods   []string
	Route     RouteOpts
	PoolSize  int // default 6
}

// RouteSet draws registrations that the registration model classifies as
// MUST_ACCEPT given the ones before them (so the set is valid by
// construction; candidates that are not are dropped and counted in dropped).
func RouteSet(t *rapid.T, o SetOpts) (regs []rt.Reg, dropped int) {
	if o.MaxRoutes <= 0 {
		o.MaxRoutes = 8
	}
	if o.PoolSize <= 0 {
		o.PoolSize = 6
	}
	if len(o.Methods) == 0 {
		o.Methods = []string{"GET"}
	}
	ro := o.Route
	if ro.SegmentPool == nil {
		ro.SegmentPool = SegPool(t, o.PoolSize, ro.WildSpacing)
	}
	n := rapid.IntRange(1, o.MaxRoutes).Draw(t, "nroutes")
	g := model.NewRegistrar()
	for i := 0; i < n; i++ {
		r := Route(t, ro)
		m := o.Methods[0]
		if len(o.Methods) > 1 {
			m = pick(t, "method", o.Methods)
		}
		ok := true
		for _, mm := range model.ExpandMethod(m) {
			if v, _ := g.Check(mm, r); v != model.MustAccept {
				ok = false
			}
		}
		if !ok {
			dropped++
			continue
		}
		for _, mm := range model.ExpandMethod(m) {
			g.Add(mm, r)
		}
		regs = append(regs, rt.Reg{M: m, R: r.Source()})
	}
	return regs, dropped
}

// Requests draws requests for a set of registrations: most are built from an
// instance of a registered route and then mutated, the rest are free.
func Requests(t *rapid.T, regs []rt.Reg, max int) []rt.Req {
	n := rapid.IntRange(1, max).Draw(t, "nreqs")
	// literals of the set, to swap into instances
	var lits []string
	for _, g := range regs {
		for _, s := range rt.Deriv(g.R).Segs {
			for _, e := range s.Elems {
				if e.Lit != "" {
					lits = append(lits, e.Lit)
				}
			}
		}
	}
	var out []rt.Req
	for i := 0; i < n; i++ {
		var segs []string
		m := "GET"
		if len(regs) > 0 && rapid.IntRange(0, 9).Draw(t, "constructed") < 8 {
			g := pick(t, "from", regs)
			d := rt.Deriv(g.R)
			short := rapid.IntRange(0, 2).Draw(t, "short") == 0
			segs = MutatePath(t, Instance(t, d, short), lits)
			if rapid.IntRange(0, 7).Draw(t, "nearmiss") == 0 {
				// a near miss of a regex segment: the instance with that segment made
				// of strings its expressions just do not match
				inst := Instance(t, d, short)
				for j, sg := range d.Segs {
					if j >= len(inst) {
						break
					}
					if k, _, _ := sg.Classify(); k != model.KRegex {
						continue
					}
					var b strings.Builder
					for _, e := range sg.Elems {
						switch {
						case e.Params != nil:
							for _, p := range e.Params {
								if x, ok := ExprByRe(p.Value); ok && len(x.Non) > 0 {
									b.WriteString(pick(t, "non", x.Non))
								} else {
									b.WriteString(pick(t, "nonval", []string{"a:b", "a?b", "", "1", "-", "A"}))
								}
							}
						case e.Bind != "":
							b.WriteString("x")
						default:
							b.WriteString(e.Lit)
						}
					}
					inst[j] = b.String()
					break
				}
				segs = inst
			}
			ms := model.ExpandMethod(g.M)
			m = ms[0]
			if len(ms) > 1 {
				m = pick(t, "m", ms)
			}
		} else {
			k := rapid.IntRange(1, 4).Draw(t, "nfree")
			for j := 0; j < k; j++ {
				if len(lits) > 0 && rapid.Bool().Draw(t, "lit") {
					segs = append(segs, pick(t, "l", lits))
				} else {
					segs = append(segs, pick(t, "val", Values))
				}
			}
			if len(regs) > 0 {
				ms := model.ExpandMethod(pick(t, "fromm", regs).M)
				m = ms[0]
			}
		}
		out = append(out, rt.Req{M: m, P: JoinPath(t, segs), Wire: Wire(t)})
	}
	return out
}

// WideSet draws a route set in which one tree node gets many siblings (13..30)
// of mixed kinds - far more than application code usually has, but ordering
// among siblings is exactly what the priority rules speak about. The siblings
// are leaves, subtrees (a common tail is appended) or both.
func WideSet(t *rapid.T) []rt.Reg {
	var prefix []model.Seg
	for i, n := 0, rapid.IntRange(0, 2).Draw(t, "nprefix"); i < n; i++ {
		prefix = append(prefix, model.Seg{Elems: []model.Elem{{Lit: pick(t, "plit", []string{"items", "v1", "a"})}}})
	}
	n := rapid.IntRange(13, 30).Draw(t, "nsiblings")
	g := model.NewRegistrar()
	var regs []rt.Reg
	static := 0
	for i := 0; i < n; i++ {
		var s model.Seg
		used := map[string]bool{}
		switch w := rapid.IntRange(0, 9).Draw(t, "wk"); {
		case w < 5:
			s = model.Seg{Elems: []model.Elem{{Lit: "s" + string(rune('a'+static%26)) + string(rune('0'+static/26))}}}
			static++
		case w < 7:
			s = RegexSeg(t, used, false)
		case w < 9:
			s = model.Seg{Elems: []model.Elem{{Bind: pick(t, "pname", []string{"a", "b", "c", "id", "x"})}}}
		default:
			s = MatchAllSeg(t, used, false)
		}
		segs := append(append([]model.Seg(nil), prefix...), s)
		switch rapid.IntRange(0, 2).Draw(t, "tail") {
		case 1:
			segs = append(segs, model.Seg{Elems: []model.Elem{{Lit: "t"}}})
		case 2:
			segs = append(segs, model.Seg{Elems: []model.Elem{{Lit: "t"}}, Optional: true})
		}
		r := model.Route{Segs: segs}
		if v, _ := g.Check("GET", r); v != model.MustAccept {
			continue
		}
		g.Add("GET", r)
		regs = append(regs, rt.Reg{M: "GET", R: r.Source()})
	}
	return regs
}

// Wire draws how a request path is spelled on the wire (see rt.Req.Wire): one
// request in four carries an over-escaped URL.RawPath next to its URL.Path.
func Wire(t *rapid.T) string {
	return []string{"", "", "", "", "", "", "all", "even"}[rapid.IntRange(0, 7).Draw(t, "wire")]
}
