// Package gen holds the rapid generators shared by the property packages.
// Everything random goes through rapid draws so that shrinking and replay work.
package gen

import (
	"strconv"
	"strings"

	"pgregory.net/rapid"

	"github.com/flamego/flamego/verifharness/internal/model"
)

// Expr is a user expression with sample members (strings it matches in full)
// and non-members.
type Expr struct {
	Re      string
	Members []string
	Non     []string
	Groups  bool // has its own capture groups
}

// Exprs is the pool of user expressions. None uses look-around assertions
// (\b, \A, \z), for which "matches its own expression in full" would depend on
// the context (DESIGN.md section 5).
var Exprs = []Expr{
	{Re: `[0-9]+`, Members: []string{"1", "42", "007"}, Non: []string{"", "x", "4x"}},
	{Re: `[a-z]+`, Members: []string{"x", "abc", "xz"}, Non: []string{"", "1", "A"}},
	{Re: `a|b`, Members: []string{"a", "b"}, Non: []string{"", "ab", "c"}},
	{Re: `(x|y)z`, Members: []string{"xz", "yz"}, Non: []string{"z", "xy"}, Groups: true},
	{Re: `[a-z0-9]{2,3}`, Members: []string{"ab", "x1z", "42"}, Non: []string{"a", "abcd"}},
	{Re: `[0-9]*`, Members: []string{"", "5", "12"}, Non: []string{"a"}},
	{Re: `(\.(patch|diff))?`, Members: []string{"", ".patch", ".diff"}, Non: []string{".", "patch"}, Groups: true},
	{Re: `\d+`, Members: []string{"12", "3"}, Non: []string{"", "d"}},
	{Re: `[\w]+`, Members: []string{"a_1", "Z"}, Non: []string{"", "-"}},
	{Re: `.+`, Members: []string{"q", "%41", "a-b"}, Non: []string{""}},
	{Re: `[a-f0-9]{7,40}`, Members: []string{"368c7b2", "0123456789abcdef"}, Non: []string{"368c7b", "xyzxyzxyz"}},
	{Re: `(?i)ab`, Members: []string{"ab", "AB", "aB"}, Non: []string{"a", "abc"}},
	{Re: `v[0-9]+(\.[0-9]+)*`, Members: []string{"v1", "v1.2.3"}, Non: []string{"v", "1.2"}, Groups: true},
	{Re: `[0-9]{4}`, Members: []string{"2021", "0000"}, Non: []string{"21", "20211"}},
	{Re: `[0-9]{2}`, Members: []string{"05", "12"}, Non: []string{"5", "123"}},
	{Re: `((a)(b))+`, Members: []string{"ab", "abab"}, Non: []string{"a", "ba"}, Groups: true},
	{Re: `x?`, Members: []string{"", "x"}, Non: []string{"xx"}},
	{Re: `[a-z.]+`, Members: []string{"q", "a.b"}, Non: []string{"", "a-b"}},
	{Re: `diff|patch`, Members: []string{"diff", "patch"}, Non: []string{"dif", "diffpatch"}},
	{Re: `[A-Z][a-z]*`, Members: []string{"A", "Abc"}, Non: []string{"abc", ""}},
	{Re: `\w{1,3}`, Members: []string{"a", "a_1"}, Non: []string{"", "abcd"}},
	{Re: `(ab)*`, Members: []string{"", "ab", "abab"}, Non: []string{"a", "aba"}, Groups: true},
	{Re: `[0-9]+(-[0-9]+)?`, Members: []string{"1", "10-20"}, Non: []string{"-", "1-"}, Groups: true},
	{Re: `[a-z(]+`, Members: []string{"a(", "q"}, Non: []string{"", ")", "a:b", "a?"}},
	{Re: `[a-z()]+`, Members: []string{"f(x)", "ab"}, Non: []string{"", "1", "a:b", "f?x"}},
	{Re: `([0-9]+)(px|em)`, Members: []string{"120px", "3em"}, Non: []string{"px", "12"}, Groups: true},
	{Re: `\pL+`, Members: []string{"x", "Zq"}, Non: []string{"", "1", "a1"}},
	{Re: `[\p{Lu}0-9]+`, Members: []string{"A1", "Z", "7"}, Non: []string{"", "a", "A-"}},
	{Re: `\PN+`, Members: []string{"ab", "-"}, Non: []string{"", "4", "a4"}},
	// an alternation between groups: begins and ends with a parenthesis without being one group
	{Re: `(v1)|(v2)`, Members: []string{"v1", "v2"}, Non: []string{"v1x", "xv2", "v", "v1v2"}, Groups: true},
}

// RandomExpr assembles an expression from 1..3 quantified atoms. Everything it
// produces is inside the route grammar's regex alphabet, compiles, and has no
// look-around assertion; members are drawn with rapid.StringMatching.
func RandomExpr(t *rapid.T) string {
	atoms := []string{`[0-9]`, `[a-z]`, `[a-c0-2]`, `x`, `ab`, `\d`, `\w`, `(a|b)`, `(x|yz)`, `[A-Z]`, `(p(q)?)`, `[._-]`, `.`}
	quants := []string{"", "", "+", "*", "?", "{1,2}", "{2}", "+?"}
	n := rapid.IntRange(1, 3).Draw(t, "natoms")
	var b strings.Builder
	for i := 0; i < n; i++ {
		b.WriteString(atoms[rapid.IntRange(0, len(atoms)-1).Draw(t, "atom")])
		b.WriteString(quants[rapid.IntRange(0, len(quants)-1).Draw(t, "quant")])
	}
	return b.String()
}

// ExprByRe finds a pool expression by text.
func ExprByRe(re string) (Expr, bool) {
	for _, e := range Exprs {
		if e.Re == re {
			return e, true
		}
	}
	return Expr{}, false
}

// Lits is the pool of literal texts; several contain characters that are
// active in regular expressions.
var Lits = []string{
	"a", "b", "c", "ab", "users", "v1", "x.y", "a+b", "f(g", "c)", "a*b", "$", "-", "_",
	"%41", "~t", "...", "e=1", "(z)", "k.", "+", "x",
	// the rest of the characters a literal may contain
	"a;b", "a;v=2", "me@x", "it's", "q&a", "!",
}

// Names is the pool of bind names ("route", "withOptional" and "capture" are
// reserved and never generated).
var Names = []string{"a", "b", "c", "id", "n-1", "x"}

// Values is the pool of raw path-segment values used for placeholders and
// match-alls.
var Values = []string{
	"x", "12", "abc", "a.b", "%41", "%2F", "a%2Fb", "%zz", "%", "\xc3\xa9", "x y", "..", "",
	"a+b", "xz-12", "ab", "a", "b", "users", "v1", "2021", "05", "%E4%BD%A0", "%4", "q%25", "A",
	"%2541", "%252F", "a%2525", "%25zz", "a%20b+c", "%2B+", "1+1%3D2", "c++", "+", "%2b%2B", "a;b", "a,b=c", "k=v&x", "caf\xe9", "\xff\xfe", "010", "a.", "a..",
	// digits that are not ASCII digits (fullwidth, Arabic-Indic): [0-9] and \d do not admit them
	"\uff11\uff12", "\u0661\u0662\u0663", "4\u0665",
	// characters that mean something in an expression, next to letters a class like [a-z()] admits
	"a:b", "a?b", "(a)", "a|b", "a)b(",
	// the spelling of a bind of the name pool, as it stands in a route text
	"{a}", "{b}", "%7Bid%7D", "{x}", "{c}-{a}",
}

// RouteOpts tunes the derivation generator.
type RouteOpts struct {
	MaxSegs     int  // default 4
	NoOptional  bool // never mark the last segment optional
	NoMatchAll  bool
	NoRegex     bool
	StaticOnly  bool
	SegmentPool []model.Seg // when set, most segments are taken from here
	// WildSpacing draws 0..3 blanks after ':' and ','; otherwise exactly one.
	WildSpacing bool
	// AllowUnclassified lets shapes through that the documentation does not
	// classify (literal bind values other than **, {**} inside a longer segment).
	AllowUnclassified bool
}

func pick[T any](t *rapid.T, label string, xs []T) T {
	return xs[rapid.IntRange(0, len(xs)-1).Draw(t, label)]
}

// names draws k distinct bind names not in used and marks them used.
func freshNames(t *rapid.T, used map[string]bool, k int) []string {
	var out []string
	for len(out) < k {
		var free []string
		for _, n := range Names {
			if !used[n] {
				free = append(free, n)
			}
		}
		if len(free) == 0 {
			n := "z" + strconv.Itoa(len(used))
			used[n] = true
			out = append(out, n)
			continue
		}
		n := pick(t, "name", free)
		used[n] = true
		out = append(out, n)
	}
	return out
}

func blanks(t *rapid.T, wild bool) int {
	if !wild {
		return 1
	}
	return rapid.IntRange(0, 3).Draw(t, "blanks")
}

// RegexSeg draws a regex-kind segment: 1..3 elements, at least one bind.
func RegexSeg(t *rapid.T, used map[string]bool, wild bool) model.Seg {
	var s model.Seg
	n := rapid.IntRange(1, 4).Draw(t, "nelems")
	haveBind := false
	prevLit := false
	for i := 0; i < n; i++ {
		kind := rapid.IntRange(0, 9).Draw(t, "ekind")
		if i == n-1 && !haveBind && kind < 3 {
			kind = 5
		}
		switch {
		case kind < 3: // literal
			if prevLit {
				continue // adjacent literals would merge into one token
			}
			s.Elems = append(s.Elems, model.Elem{Lit: pick(t, "lit", Lits)})
			prevLit = true
			continue
		case kind < 5 && n > 1: // {name} inside a longer segment
			s.Elems = append(s.Elems, model.Elem{Bind: freshNames(t, used, 1)[0]})
		default: // parameter list with 1..2 regex parameters
			k := 1
			if rapid.IntRange(0, 4).Draw(t, "two") == 0 {
				k = 2
			}
			ns := freshNames(t, used, k)
			e := model.Elem{Params: []model.Param{}}
			for j := 0; j < k; j++ {
				re := pick(t, "expr", Exprs).Re
				if rapid.IntRange(0, 4).Draw(t, "randexpr") == 0 {
					re = RandomExpr(t)
				}
				e.Params = append(e.Params, model.Param{Name: ns[j], IsRegex: true, Value: re, Blanks: blanks(t, wild), Lead: blanks(t, wild)})
			}
			e.Params[0].Lead = 0
			s.Elems = append(s.Elems, e)
		}
		haveBind = true
		prevLit = false
	}
	if len(s.Elems) == 1 && s.Elems[0].Bind != "" {
		// a lone {name} is a placeholder, not a regex segment: add a literal
		s.Elems = append(s.Elems, model.Elem{Lit: pick(t, "lit", Lits)})
	}
	return s
}

// MatchAllSeg draws a match-all segment.
func MatchAllSeg(t *rapid.T, used map[string]bool, wild bool) model.Seg {
	switch rapid.IntRange(0, 3).Draw(t, "makind") {
	case 0:
		if !used["**"] {
			used["**"] = true
			return model.Seg{Elems: []model.Elem{{Bind: "**"}}}
		}
		fallthrough
	case 1:
		n := freshNames(t, used, 1)[0]
		return model.Seg{Elems: []model.Elem{{Params: []model.Param{{Name: n, Value: "**", Blanks: blanks(t, wild)}}}}}
	default:
		n := freshNames(t, used, 1)[0]
		c := rapid.IntRange(1, 3).Draw(t, "capture")
		if rapid.IntRange(0, 7).Draw(t, "bigcapture") == 0 {
			c = []int{8, 9, 12}[rapid.IntRange(0, 2).Draw(t, "bigcap")]
		}
		return model.Seg{Elems: []model.Elem{{Params: []model.Param{
			{Name: n, Value: "**", Blanks: blanks(t, wild)},
			{Name: "capture", Value: strconv.Itoa(c), Blanks: blanks(t, wild), Lead: blanks(t, wild)},
		}}}}
	}
}

// SegOfKind draws one segment of the given kind.
func SegOfKind(t *rapid.T, k model.Kind, used map[string]bool, wild bool) model.Seg {
	switch k {
	case model.KStatic:
		return model.Seg{Elems: []model.Elem{{Lit: pick(t, "lit", Lits)}}}
	case model.KPlaceholder:
		return model.Seg{Elems: []model.Elem{{Bind: freshNames(t, used, 1)[0]}}}
	case model.KRegex:
		return RegexSeg(t, used, wild)
	default:
		return MatchAllSeg(t, used, wild)
	}
}

func bindsOf(s model.Seg) []string {
	_, b, _ := s.Classify()
	return b
}

// Route draws one derivation that is well-formed on its own: bind names are
// unique along the route, only the last segment may be optional or empty, at
// most one match-all precedes the end.
func Route(t *rapid.T, o RouteOpts) model.Route {
	max := o.MaxSegs
	if max <= 0 {
		max = 4
	}
	if rapid.IntRange(0, 29).Draw(t, "root") == 0 {
		return model.Route{Segs: []model.Seg{{}}} // the root route "/"
	}
	n := rapid.IntRange(1, max).Draw(t, "nsegs")
	used := map[string]bool{}
	var r model.Route
	midMatchAll := false
	for i := 0; i < n; i++ {
		lastSeg := i == n-1
		var s model.Seg
		fromPool := len(o.SegmentPool) > 0 && rapid.IntRange(0, 9).Draw(t, "frompool") < 7
		ok := false
		if fromPool {
			s = pick(t, "poolseg", o.SegmentPool)
			k, binds, _ := s.Classify()
			ok = true
			for _, b := range binds {
				if used[b] {
					ok = false
				}
			}
			if k == model.KMatchAll && !lastSeg && midMatchAll {
				ok = false
			}
			if len(s.Elems) == 0 {
				ok = false
			}
			if ok {
				for _, b := range binds {
					used[b] = true
				}
			}
		}
		if !ok {
			w := rapid.IntRange(0, 99).Draw(t, "segkind")
			var k model.Kind
			switch {
			case o.StaticOnly || w < 40:
				k = model.KStatic
			case w < 60:
				k = model.KPlaceholder
			case w < 82 && !o.NoRegex:
				k = model.KRegex
			case w < 95 && !o.NoMatchAll && (lastSeg || !midMatchAll):
				k = model.KMatchAll
			case w >= 95 && lastSeg && n > 1 && !o.StaticOnly:
				k = 0 // empty last segment: "/a/"
			default:
				k = model.KStatic
			}
			if k == 0 {
				s = model.Seg{}
			} else {
				s = SegOfKind(t, k, used, o.WildSpacing)
			}
		}
		if k, _, _ := s.Classify(); k == model.KMatchAll && !lastSeg {
			midMatchAll = true
		}
		r.Segs = append(r.Segs, s)
	}
	if !o.NoOptional && rapid.IntRange(0, 4).Draw(t, "optional") == 0 {
		r.Segs[len(r.Segs)-1].Optional = true
	}
	if n == 1 && len(r.Segs[0].Elems) == 0 && r.Segs[0].Optional {
		r.Segs[0].Optional = false // "/?" alone: keep it for the parser tests only
	}
	return r
}

// SegPool draws a small pool of segments that routes of one case share, so
// that prefixes coincide and siblings compete.
func SegPool(t *rapid.T, n int, wild bool) []model.Seg {
	return SegPoolW(t, n, wild, [3]int{35, 55, 85})
}

// SegPoolW is SegPool with explicit cumulative weights (out of 100) for
// static, placeholder and regex; the rest is match-all.
func SegPoolW(t *rapid.T, n int, wild bool, w3 [3]int) []model.Seg {
	var pool []model.Seg
	for i := 0; i < n; i++ {
		w := rapid.IntRange(0, 99).Draw(t, "poolkind")
		used := map[string]bool{}
		var k model.Kind
		switch {
		case w < w3[0]:
			k = model.KStatic
		case w < w3[1]:
			k = model.KPlaceholder
		case w < w3[2]:
			k = model.KRegex
		default:
			k = model.KMatchAll
		}
		seg := SegOfKind(t, k, used, wild)
		pool = append(pool, seg)
		if k == model.KRegex && rapid.IntRange(0, 2).Draw(t, "twin") == 0 {
			// a twin: the same segment - same literals, same bind names - with
			// other expressions (routes that go through the one and through the
			// other are different routes)
			tw := model.Seg{Optional: seg.Optional}
			changed := false
			for _, e := range seg.Elems {
				ne := model.Elem{Lit: e.Lit, Bind: e.Bind}
				for _, pm := range e.Params {
					if pm.IsRegex {
						if re := pick(t, "twinexpr", Exprs).Re; re != pm.Value {
							pm.Value, changed = re, true
						}
					}
					ne.Params = append(ne.Params, pm)
				}
				tw.Elems = append(tw.Elems, ne)
			}
			if changed {
				pool = append(pool, tw)
			}
		}
	}
	return pool
}

// value draws a raw value for a placeholder or match-all: mostly from the
// pool, occasionally a very long one (the properties quantify over paths of
// any length).
func value(t *rapid.T) string {
	if rapid.IntRange(0, 39).Draw(t, "longval") == 0 {
		unit := pick(t, "unit", []string{"ab", "x", "%41", "1", "a.b-"})
		return strings.Repeat(unit, rapid.IntRange(300, 3000).Draw(t, "nunit"))
	}
	return pick(t, "val", Values)
}

// SegInstance draws raw path segments admitted by the segment (one segment,
// or 1..3 - now and then 8..40 - for a match-all).
func SegInstance(t *rapid.T, s model.Seg) []string {
	k, _, capture := s.Classify()
	switch k {
	case model.KStatic:
		if len(s.Elems) == 0 {
			return []string{""}
		}
		return []string{s.Elems[0].Lit}
	case model.KPlaceholder:
		return []string{value(t)}
	case model.KMatchAll:
		max := 3
		if capture > 0 && capture < max {
			max = capture
		}
		n := rapid.IntRange(1, max).Draw(t, "nma")
		if (capture <= 0 || capture > 3) && rapid.IntRange(0, 11).Draw(t, "longma") == 0 {
			// "any number of segments": now and then a long run
			hi := 40
			if capture > 0 && capture < hi {
				hi = capture
			}
			if hi >= 8 {
				n = rapid.IntRange(8, hi).Draw(t, "nmalong")
			} else {
				n = hi
			}
		}
		var out []string
		for i := 0; i < n; i++ {
			out = append(out, value(t))
		}
		return out
	case model.KRegex:
		var b strings.Builder
		for _, e := range s.Elems {
			switch {
			case e.Params != nil:
				for _, p := range e.Params {
					if x, ok := ExprByRe(p.Value); ok {
						b.WriteString(pick(t, "member", x.Members))
					} else {
						b.WriteString(rapid.StringMatching(p.Value).Draw(t, "member"))
					}
				}
			case e.Bind != "":
				v := pick(t, "val", Values)
				if v == "" {
					v = "x"
				}
				b.WriteString(v)
			default:
				b.WriteString(e.Lit)
			}
		}
		return []string{b.String()}
	}
	return []string{"x"}
}

// Instance draws a path admitted by the route (long form, or short form when
// short is true and the route is optional), as raw segments.
func Instance(t *rapid.T, r model.Route, short bool) []string {
	segs := r.Segs
	if short && len(segs) > 0 && segs[len(segs)-1].Optional {
		segs = segs[:len(segs)-1]
	}
	var out []string
	for _, s := range segs {
		out = append(out, SegInstance(t, s)...)
	}
	if len(out) == 0 {
		out = []string{""}
	}
	return out
}

// MutatePath applies 0..2 small mutations to raw path segments.
func MutatePath(t *rapid.T, segs []string, extra []string) []string {
	out := append([]string(nil), segs...)
	n := rapid.IntRange(0, 2).Draw(t, "nmut")
	for i := 0; i < n; i++ {
		switch rapid.IntRange(0, 5).Draw(t, "mut") {
		case 0: // drop a segment
			if len(out) > 1 {
				j := rapid.IntRange(0, len(out)-1).Draw(t, "j")
				out = append(out[:j:j], out[j+1:]...)
			}
		case 1: // insert a segment
			j := rapid.IntRange(0, len(out)).Draw(t, "j")
			v := pick(t, "val", Values)
			out = append(out[:j:j], append([]string{v}, out[j:]...)...)
		case 2: // duplicate a segment
			j := rapid.IntRange(0, len(out)-1).Draw(t, "j")
			out = append(out[:j:j], append([]string{out[j]}, out[j:]...)...)
		case 3: // trailing slash
			out = append(out, "")
		case 4: // replace a segment
			j := rapid.IntRange(0, len(out)-1).Draw(t, "j")
			if len(extra) > 0 && rapid.Bool().Draw(t, "useextra") {
				out[j] = pick(t, "extra", extra)
			} else {
				out[j] = pick(t, "val", Values)
			}
		case 5: // append a segment
			out = append(out, pick(t, "val", Values))
		}
	}
	return out
}

// JoinPath renders raw segments as a request path with 1..3 leading slashes.
func JoinPath(t *rapid.T, segs []string) string {
	lead := 1
	if rapid.IntRange(0, 9).Draw(t, "lead") == 0 {
		lead = rapid.IntRange(2, 3).Draw(t, "nlead")
	}
	// a path whose first segment is empty cannot be told from extra leading
	// slashes; that is fine, the model strips them the same way.
	return strings.Repeat("/", lead) + strings.Join(segs, "/")
}

// BigSizes are payload sizes around the usual buffer boundaries.
var BigSizes = []int{512, 4095, 4096, 4097, 8192, 32769, 65536, 70000}

// Big returns s, or - one time in twelve - s repeated up to one of BigSizes
// bytes: payloads larger than any buffer an implementation may put in the way.
func Big(t *rapid.T, s string) string {
	if rapid.IntRange(0, 11).Draw(t, "big") != 0 {
		return s
	}
	n := BigSizes[rapid.IntRange(0, len(BigSizes)-1).Draw(t, "bigsize")]
	if s == "" {
		s = "x"
	}
	return strings.Repeat(s, n/len(s)+1)[:n]
}
