package gen

import (
	"regexp"
	"testing"

	"github.com/flamego/flamego/verifharness/internal/model"
)

// TestPools checks the harness' own pools: every literal is made of identifier
// characters, every expression of regex characters, members match in full and
// non-members do not.
func TestPools(t *testing.T) {
	for _, l := range Lits {
		for i := 0; i < len(l); i++ {
			if !model.IsIdentChar(l[i]) {
				t.Fatalf("literal %q contains %q", l, l[i])
			}
		}
	}
	for _, e := range Exprs {
		for i := 0; i < len(e.Re); i++ {
			if !model.IsRegexChar(e.Re[i]) {
				t.Fatalf("expression %q contains %q which the route grammar does not allow in a regex value", e.Re, e.Re[i])
			}
		}
		re := regexp.MustCompile(`^(?:` + e.Re + `)$`)
		for _, m := range e.Members {
			if !re.MatchString(m) {
				t.Fatalf("%q is not a member of %q", m, e.Re)
			}
		}
		for _, m := range e.Non {
			if re.MatchString(m) {
				t.Fatalf("%q is a member of %q", m, e.Re)
			}
		}
	}
}

func TestRandomExprAlphabet(t *testing.T) {
	for _, a := range []string{`[0-9]`, `[a-z]`, `[a-c0-2]`, `x`, `ab`, `\d`, `\w`, `(a|b)`, `(x|yz)`, `[A-Z]`, `(p(q)?)`, `[._-]`, `.`, "+", "*", "?", "{1,2}", "{2}", "+?"} {
		for i := 0; i < len(a); i++ {
			if !model.IsRegexChar(a[i]) {
				t.Fatalf("%q contains %q", a, a[i])
			}
		}
	}
}
