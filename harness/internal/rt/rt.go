// Package rt holds helpers that drive the real flamego code for the routing
// properties: parsing route text, building route.Tree values, building Flame
// instances whose handlers report which route ran, and issuing requests whose
// URL.Path is set directly (not sanitised by http.NewRequest).
package rt

import (
	"fmt"
	"io"
	"net"
	"net/http"
	"net/http/httptest"
	"net/url"
	"sort"
	"strings"
	"syscall"

	"github.com/flamego/flamego"
	"github.com/flamego/flamego/internal/route"
	"github.com/flamego/flamego/verifharness/internal/model"
)

var parser = func() *route.Parser {
	p, err := route.NewParser()
	if err != nil {
		panic(err)
	}
	return p
}()

// Parse parses route text with the real parser.
func Parse(src string) (*route.Route, error) { return parser.Parse(src) }

// Reg is one registration: a method and route text.
type Reg struct {
	M string `json:"m"`
	R string `json:"r"`
	// H are header constraints as name/expression pairs (C09).
	H []string `json:"h,omitempty"`
	// HC: afterwards Headers() is called once more with no pairs at all, which
	// replaces the set by the empty one.
	HC bool `json:"h_cleared,omitempty"`
	// Boom: the route's handler panics (with a Boom value) once it has recorded
	// that it ran; no Recovery is installed, the panic is the caller's.
	Boom bool `json:"handler_panics,omitempty"`
}

// Boom is the value a Reg.Boom handler panics with.
type Boom struct{}

// Req is one request.
type Req struct {
	M string      `json:"m"`
	P string      `json:"p"`
	H [][2]string `json:"h,omitempty"`
	// Wire says how the path was spelled on the wire: "" = URL.Path only;
	// "all" / "even" = the request also carries URL.RawPath, a valid but
	// over-escaped spelling of the same path (every byte / every second byte
	// other than '/' percent-encoded), as a server sees it when a client sends
	// e.g. /users/%40me. The path the router is given is P either way.
	Wire string `json:"wire,omitempty"`
}

// RawPath spells p in an over-escaped way that decodes to exactly p.
func RawPath(p, mode string) string {
	const hex = "0123456789ABCDEF"
	var b strings.Builder
	for i := 0; i < len(p); i++ {
		c := p[i]
		plain := c >= 'a' && c <= 'z' || c >= 'A' && c <= 'Z' || c >= '0' && c <= '9' || c == '-' || c == '.' || c == '_' || c == '~'
		switch {
		case c == '/':
			b.WriteByte(c)
		case plain && !(mode == "all" || mode == "even" && i%2 == 0):
			b.WriteByte(c)
		default:
			b.WriteByte('%')
			b.WriteByte(hex[c>>4])
			b.WriteByte(hex[c&15])
		}
	}
	return b.String()
}

// HTTP builds the *http.Request of q.
func (q Req) HTTP() *http.Request {
	req := NewRequest(q.M, q.P, q.Header())
	if q.Wire != "" {
		req.URL.RawPath = RawPath(q.P, q.Wire)
		req.RequestURI = req.URL.RawPath
	}
	return req
}

// Header builds the http.Header of a request.
func (r Req) Header() http.Header {
	h := http.Header{}
	for _, kv := range r.H {
		h.Add(kv[0], kv[1])
	}
	return h
}

// Deriv returns the derivation of route text according to the reference
// parser; it panics when the text is not in the grammar (harness error: cases
// only hold grammatical text unless stated otherwise).
func Deriv(src string) model.Route {
	d, ok := model.ParseRef(src)
	if !ok {
		panic("harness: route text not in the grammar: " + src)
	}
	return d
}

// Trees builds one real route.Tree per method from registrations. It returns
// the error of the first failing registration (index in errAt), if any.
func Trees(regs []Reg) (trees map[string]route.Tree, leaves []map[string]route.Leaf, errAt int, err error) {
	trees = map[string]route.Tree{}
	cur := 0
	defer func() {
		if r := recover(); r != nil {
			errAt, err = cur, fmt.Errorf("registration panicked: %v", r)
		}
	}()
	for i, g := range regs {
		cur = i
		ast, perr := Parse(g.R)
		if perr != nil {
			return trees, leaves, i, perr
		}
		lm := map[string]route.Leaf{}
		for _, m := range model.ExpandMethod(g.M) {
			if trees[m] == nil {
				trees[m] = route.NewTree()
			}
			idx := i
			leaf, aerr := route.AddRoute(trees[m], ast, func(http.ResponseWriter, *http.Request, route.Params) { _ = idx })
			if aerr != nil {
				return trees, leaves, i, aerr
			}
			lm[m] = leaf
		}
		leaves = append(leaves, lm)
	}
	return trees, leaves, -1, nil
}

// AddToTrees registers one more route in trees built by Trees.
func AddToTrees(trees map[string]route.Tree, g Reg, idx int) (err error) {
	defer func() {
		if r := recover(); r != nil {
			err = fmt.Errorf("registration panicked: %v", r)
		}
	}()
	ast, perr := Parse(g.R)
	if perr != nil {
		return perr
	}
	for _, m := range model.ExpandMethod(g.M) {
		if trees[m] == nil {
			trees[m] = route.NewTree()
		}
		if _, aerr := route.AddRoute(trees[m], ast, func(http.ResponseWriter, *http.Request, route.Params) { _ = idx }); aerr != nil {
			return aerr
		}
	}
	return nil
}

// Compiled turns registrations into the reference matcher's routes for one
// method, with registration indexes preserved.
func Compiled(regs []Reg, method string) []model.MRoute {
	var out []model.MRoute
	for i, g := range regs {
		hit := false
		for _, m := range model.ExpandMethod(g.M) {
			if m == method {
				hit = true
			}
		}
		if !hit {
			continue
		}
		mr, err := model.Compile(Deriv(g.R), i)
		if err != nil {
			panic(fmt.Sprintf("harness: route %q does not compile in the model: %v", g.R, err))
		}
		out = append(out, mr)
	}
	return out
}

// Hit records what one request did at the Flame level.
type Hit struct {
	Handler  int               // registration index of the route handler that ran, -1 none
	NotFound bool              // the not-found chain ran
	Chains   int               // how many times the application middleware started
	Params   map[string]string // bind parameters seen by the handler
	Status   int
	Body     string
	Panic    interface{}
	// Boomed: the handler that ran was one that panics on purpose (Reg.Boom)
	Boomed bool
}

// App is a Flame instance instrumented to report hits.
type App struct {
	F               *flamego.Flame
	cur             *Hit
	defaultNotFound bool
}

// NewApp builds a Flame with a counting middleware and a marker not-found
// handler. Registration errors (panics) are returned with their index.
func NewApp(regs []Reg) (app *App, errAt int, err interface{}) {
	return NewAppOpt(regs, true)
}

// NewAppOpt is NewApp; with userNotFound false the default not-found handler
// (http.NotFound) stays in place and Hit.NotFound is inferred by Serve from
// its response.
func NewAppOpt(regs []Reg, userNotFound bool) (app *App, errAt int, err interface{}) {
	if userNotFound {
		return NewAppMode(regs, "user")
	}
	return NewAppMode(regs, "default")
}

// NewAppMode is NewApp with the not-found set-up spelled out: "user" (a marker
// handler), "default" (http.NotFound stays; Hit.NotFound is inferred from its
// response) or "empty" (NotFound() called with no handlers at all: the chain
// consists of the application middleware only and Hit.NotFound stays false).
func NewAppMode(regs []Reg, mode string) (app *App, errAt int, err interface{}) {
	userNotFound := mode == "user"
	app = &App{F: flamego.NewWithLogger(io.Discard), defaultNotFound: mode == "default"}
	if mode == "empty" {
		app.F.NotFound()
	}
	app.F.Use(func(c flamego.Context) {
		if app.cur != nil {
			app.cur.Chains++
		}
	})
	if userNotFound {
		app.F.NotFound(func(c flamego.Context) {
			if app.cur != nil {
				app.cur.NotFound = true
			}
			c.ResponseWriter().WriteHeader(http.StatusNotFound)
		})
	}
	for i, g := range regs {
		if e := app.Register(i, g); e != nil {
			return app, i, e
		}
	}
	return app, -1, nil
}

// Register adds one registration; a registration panic is returned.
func (a *App) Register(i int, g Reg) (err interface{}) {
	defer func() {
		if r := recover(); r != nil {
			err = r
		}
	}()
	idx := i
	r := a.F.Route(g.M, g.R, []flamego.Handler{func(c flamego.Context) {
		if a.cur != nil {
			a.cur.Handler = idx
			a.cur.Params = map[string]string{}
			for k, v := range c.Params() {
				a.cur.Params[k] = v
			}
		}
		if g.Boom {
			if a.cur != nil {
				a.cur.Boomed = true
			}
			panic(Boom{})
		}
		c.ResponseWriter().WriteHeader(http.StatusOK)
	}})
	if len(g.H) > 0 {
		r.Headers(g.H...)
	}
	if g.HC {
		r.Headers()
	}
	return nil
}

// RegisterSplit is Register with the route text cut at the given byte offsets
// (ascending): every piece but the last is the path of a nested Group, the
// last one the path given to Route inside them. The concatenation is g.R.
func (a *App) RegisterSplit(i int, g Reg, cuts []int) (err interface{}) {
	defer func() {
		if r := recover(); r != nil {
			err = r
		}
	}()
	var pieces []string
	prev := 0
	for _, c := range cuts {
		if c < prev || c > len(g.R) {
			panic("harness: cuts")
		}
		pieces = append(pieces, g.R[prev:c])
		prev = c
	}
	rest := g.R[prev:]
	var nest func(k int)
	nest = func(k int) {
		if k == len(pieces) {
			if perr := a.Register(i, Reg{M: g.M, R: rest, H: g.H, HC: g.HC}); perr != nil {
				panic(perr)
			}
			return
		}
		a.F.Group(pieces[k], func() { nest(k + 1) })
	}
	nest(0)
	return nil
}

// RegisterRoutes is Register through Routes(path, list): g.M is a comma list.
func (a *App) RegisterRoutes(i int, g Reg) (err interface{}) {
	defer func() {
		if r := recover(); r != nil {
			err = r
		}
	}()
	idx := i
	r := a.F.Routes(g.R, g.M, func(c flamego.Context) {
		if a.cur != nil {
			a.cur.Handler = idx
			a.cur.Params = map[string]string{}
			for k, v := range c.Params() {
				a.cur.Params[k] = v
			}
		}
		c.ResponseWriter().WriteHeader(http.StatusOK)
	})
	if len(g.H) > 0 {
		r.Headers(g.H...)
	}
	if g.HC {
		r.Headers()
	}
	return nil
}

// NewRequest builds a request whose URL.Path is exactly p.
func NewRequest(method, p string, h http.Header) *http.Request {
	if h == nil {
		h = http.Header{}
	}
	return &http.Request{
		Method:     method,
		URL:        &url.URL{Path: p},
		Proto:      "HTTP/1.1",
		ProtoMajor: 1,
		ProtoMinor: 1,
		Header:     h,
		Host:       "example.test",
		RequestURI: p,
		Body:       http.NoBody,
	}
}

// Serve runs one request and reports the hit; a panic escaping ServeHTTP is
// captured in Hit.Panic.
func (a *App) Serve(q Req) (hit Hit) {
	hit.Handler = -1
	a.cur = &hit
	defer func() {
		a.cur = nil
		if r := recover(); r != nil {
			hit.Panic = r
		}
	}()
	rec := httptest.NewRecorder()
	a.F.ServeHTTP(rec, q.HTTP())
	hit.Status = rec.Code
	hit.Body = rec.Body.String()
	a.inferNotFound(&hit, q.M)
	return hit
}

// NewRequestNilHeader builds a request whose Header map is nil.
func NewRequestNilHeader(method, p string) *http.Request {
	r := NewRequest(method, p, nil)
	r.Header = nil
	return r
}

// ServeRaw is Serve for a prepared request.
func (a *App) ServeRaw(req *http.Request) (hit Hit) {
	hit.Handler = -1
	a.cur = &hit
	defer func() {
		a.cur = nil
		if r := recover(); r != nil {
			hit.Panic = r
		}
	}()
	rec := httptest.NewRecorder()
	a.F.ServeHTTP(rec, req)
	hit.Status = rec.Code
	hit.Body = rec.Body.String()
	a.inferNotFound(&hit, req.Method)
	return hit
}

// inferNotFound recognises the response of the default not-found handler
// (http.NotFound; a HEAD request gets no body).
func (a *App) inferNotFound(hit *Hit, method string) {
	if !a.defaultNotFound || hit.Handler >= 0 || hit.Status != http.StatusNotFound {
		return
	}
	if hit.Body == "404 page not found\n" || (method == http.MethodHead && hit.Body == "") {
		hit.NotFound = true
	}
}

// SortedKeys returns the keys of a string map in order.
func SortedKeys(m map[string]string) []string {
	ks := make([]string, 0, len(m))
	for k := range m {
		ks = append(ks, k)
	}
	sort.Strings(ks)
	return ks
}

// Show renders a params map deterministically.
func Show(m map[string]string) string {
	var b strings.Builder
	b.WriteString("{")
	for i, k := range SortedKeys(m) {
		if i > 0 {
			b.WriteString(", ")
		}
		fmt.Fprintf(&b, "%s=%q", k, m[k])
	}
	b.WriteString("}")
	return b.String()
}

// Spy is an http.ResponseWriter that records every call it receives.
type Spy struct {
	H     http.Header
	Codes []int    // every WriteHeader call
	Body  []byte   // all body bytes
	Log   []string // "WH <code>" / "W <n>" in order
	// Gone: the client has gone away: every body write fails (nothing is taken)
	Gone bool
}

var errGone = &net.OpError{Op: "write", Net: "tcp", Err: syscall.EPIPE}

// NewSpy returns an empty spy.
func NewSpy() *Spy { return &Spy{H: http.Header{}} }

func (s *Spy) Header() http.Header { return s.H }
func (s *Spy) WriteHeader(code int) {
	s.Codes = append(s.Codes, code)
	s.Log = append(s.Log, fmt.Sprintf("WH %d", code))
}
func (s *Spy) Write(b []byte) (int, error) {
	if s.Gone {
		s.Log = append(s.Log, "W failed")
		return 0, errGone
	}
	s.Body = append(s.Body, b...)
	s.Log = append(s.Log, fmt.Sprintf("W %d", len(b)))
	return len(b), nil
}

// StringSpy is a spy that also has a WriteString method, as net/http's own
// response writer (and httptest's recorder) have.
type StringSpy struct{ *Spy }

func (s StringSpy) WriteString(str string) (int, error) {
	if s.Spy.Gone {
		return s.Spy.Write([]byte(str))
	}
	s.Spy.Body = append(s.Spy.Body, str...)
	s.Spy.Log = append(s.Spy.Log, fmt.Sprintf("W %d", len(str)))
	return len(str), nil
}

// Status is the first status line the spy received (0 = none).
func (s *Spy) Status() int {
	if len(s.Codes) == 0 {
		return 0
	}
	return s.Codes[0]
}
