// Package c11 decides property C11: routes declared through nested Group,
// Combo, Routes, Any and AutoHead behave exactly like the flat list of
// single-method registrations with concatenated path and handler list.
package c11

import (
	"encoding/json"
	"fmt"
	"io"
	"net/http"
	"strings"
	"testing"

	"pgregory.net/rapid"

	"github.com/flamego/flamego"
	"github.com/flamego/flamego/verifharness/internal/evid"
	"github.com/flamego/flamego/verifharness/internal/model"
	"github.com/flamego/flamego/verifharness/internal/rt"
)

const rule = "case = a registration program: a tree of Group(path, handlers, body) (now and then with the path of an earlier group of the same level and a handler list of its own; now and then with a child whose own path spells the whole prefix of the groups around it once more) nested up to 7 deep (empty, static and dynamic group paths, 0..2 group handlers), containing Get..Trace, Route, Any, Routes (comma list with blanks and lower case / several method strings), Combo (common handlers + 1..4 methods) and AutoHead(v) calls anywhere (also with the value it has); handler lists are passed as fresh variadics or as sub-slices with spare capacity. Route paths are distinct by construction (except that a second Combo call may declare further methods of the same route); a group with a static path of its own may also declare its own route with the empty path. After the program, optionally: a nested declaration whose pieces are harmless but whose concatenation the router must refuse (then a route at the top level, which must be reachable), and a Get under AutoHead on a path whose GET or HEAD is taken. " +
	"Oracle: an own flatten(program) = list of (method, full path, handler ids, outer group first). Flame P is built from the program, Flame Q from the flat list with Route(method, path, handlers); for every registered path x all nine methods and two unknown ones the handler-id trace and the parameters of P must equal those of Q and flatten's expectation. Also (own property): a Combo with 1..5 methods, inside a group or not, must refuse any of them a second time - also when the repeat is made inside another group - and keep serving all of them with their first handlers. The refused declarations must be refused like their flat expansions and leave standing exactly what those leave standing. " +
	"non-trivial = a program with nesting depth >= 2, or a Combo with >= 2 methods, or an AutoHead toggle between two GET routes, or sibling routes inside a nested group with group handlers; distinct by case text"

var assumptions = []string{
	"AutoHead is documented for Get(): while it is on, GET is declared through Get / Combo.Get / Any only (whether Route(\"GET\") and Routes(\"GET\") should add HEAD is not stated)",
	"route paths of one program are distinct, so every registration is valid",
	"a declaration that is refused leaves what was there before untouched; of its own routes any part may stand (registered before the refusal was noticed) or none (taken back); later declarations are not affected by it (a Combo's common handlers do not stick to them, the group scope is as it was)",
	"'Combo refuses the same method twice' is read literally: the Combo value refuses, also when the repeat is made while another group is open (clause combo-repeat-other-scope; an implementation that leaves the refusal to the router's duplicate detection would trip this clause and no other)",
	"an argument list handed to Routes stays the caller's: spread into a second Routes call it declares the same handlers again (class routes-arguments-reused)",
	"pieces that are each harmless but concatenate to a route the router must refuse (C08) are refused like the flat registration, and the enclosing scope is restored when a group is left through that panic",
}

func TestMain(m *testing.M) { evid.Main(m, "C11", rule, assumptions) }

// Node is one statement of a registration program.
type Node struct {
	K       string   `json:"k"` // group | method | route | any | routes | combo | autohead
	Path    string   `json:"path,omitempty"`
	Methods []string `json:"methods,omitempty"` // method: 1; routes: n; combo: n
	Form    string   `json:"form,omitempty"`    // routes: list | args
	H       int      `json:"h,omitempty"`       // own handlers (for combo: per method)
	Common  int      `json:"common,omitempty"`  // combo: common handlers
	Spare   bool     `json:"spare,omitempty"`   // pass handlers as a sub-slice with spare capacity
	On      bool     `json:"on,omitempty"`      // autohead
	// Again (routes, form args): the same argument list (method strings and
	// handlers, one slice) is used for a second declaration, of "/again"+path.
	Again    bool   `json:"same_arguments_again,omitempty"`
	Children []Node `json:"children,omitempty"`
}

type Case struct {
	Program []Node `json:"program"`
	// BadJoin (1..3): after the program, one more declaration is attempted whose
	// pieces are each harmless but whose concatenation is not a route the router
	// may accept (C08): "/bj/" + "/leaf" and "/bj" + "/" + "/leaf" have an empty
	// inner segment, "/?bj" + "/leaf" an optional segment that is not the last.
	// The flat registration of the concatenated path is refused, so this is too.
	BadJoin int `json:"ill_formed_concatenation,omitempty"`
	// DupGet (1..2): after the program, Get("/dg") is declared under AutoHead
	// although (1) GET /dg or (2) HEAD /dg exists already: the declaration is
	// refused like its flat expansion [GET /dg, HEAD /dg], of which everything in
	// front of the refused entry stands and nothing behind it.
	DupGet int `json:"get_under_autohead_on_a_taken_path,omitempty"`
	// Wrapper: both instances have a HandlerWrapper that announces every handler
	// it was given (a -1 in the trace in front of the handler's id), and the
	// handlers have a shape the wrapper gets to see: group handlers are wrapped
	// like the route's own.
	Wrapper bool `json:"handler_wrapper,omitempty"`
	// DupCombo: after the program, a Combo with common handlers declares a
	// method on a path where that method is taken: refused; then a route at the
	// top level, which runs its own handlers only.
	DupCombo bool `json:"combo_method_on_a_taken_path,omitempty"`
}

func badJoin(k int) (nodes []Node, flat string) {
	leaf := []Node{{K: "method", Path: "/leaf", Methods: []string{"GET"}, H: 1}}
	switch k {
	case 1:
		return []Node{{K: "group", Path: "/bj/", Children: leaf}}, "/bj//leaf"
	case 2:
		return []Node{{K: "group", Path: "/bj", Children: []Node{{K: "group", Path: "/", Children: leaf}}}}, "/bj//leaf"
	}
	return []Node{{K: "group", Path: "/?bj", Children: leaf}}, "/?bj/leaf"
}

// Flat is one entry of the flat expansion.
type Flat struct {
	M    string
	Path string
	IDs  []int
}

// ---- reference: flatten ------------------------------------------------------------

type flattener struct {
	next     int
	autoHead bool
	out      []Flat
}

func (fl *flattener) ids(n int) []int {
	var out []int
	for i := 0; i < n; i++ {
		out = append(out, fl.next)
		fl.next++
	}
	return out
}

func cat(a, b []int) []int { return append(append([]int(nil), a...), b...) }

func (fl *flattener) walk(nodes []Node, prefix string, ghs []int) {
	for _, n := range nodes {
		switch n.K {
		case "group":
			own := fl.ids(n.H)
			fl.walk(n.Children, prefix+n.Path, cat(ghs, own))
		case "autohead":
			fl.autoHead = n.On
		case "method":
			own := fl.ids(n.H)
			m := strings.ToUpper(n.Methods[0])
			fl.out = append(fl.out, Flat{m, prefix + n.Path, cat(ghs, own)})
			if m == "GET" && fl.autoHead {
				fl.out = append(fl.out, Flat{"HEAD", prefix + n.Path, cat(ghs, own)})
			}
		case "route":
			own := fl.ids(n.H)
			fl.out = append(fl.out, Flat{strings.ToUpper(n.Methods[0]), prefix + n.Path, cat(ghs, own)})
		case "any":
			own := fl.ids(n.H)
			for _, m := range model.Methods {
				fl.out = append(fl.out, Flat{m, prefix + n.Path, cat(ghs, own)})
			}
		case "routes":
			own := fl.ids(n.H)
			for _, m := range n.Methods {
				fl.out = append(fl.out, Flat{strings.ToUpper(strings.TrimSpace(m)), prefix + n.Path, cat(ghs, own)})
			}
			if n.Again && n.Form == "args" {
				for _, m := range n.Methods {
					fl.out = append(fl.out, Flat{strings.ToUpper(strings.TrimSpace(m)), prefix + "/again" + n.Path, cat(ghs, own)})
				}
			}
		case "combo":
			common := fl.ids(n.Common)
			for _, m := range n.Methods {
				own := fl.ids(n.H)
				fl.out = append(fl.out, Flat{m, prefix + n.Path, cat(ghs, cat(common, own))})
				if m == "GET" && fl.autoHead {
					fl.out = append(fl.out, Flat{"HEAD", prefix + n.Path, cat(ghs, cat(common, own))})
				}
			}
		}
	}
}

func flatten(c Case) []Flat {
	fl := &flattener{}
	fl.walk(c.Program, "", nil)
	return fl.out
}

// ---- real: build P from the program ---------------------------------------------------

type builder struct {
	f     *flamego.Flame
	next  int
	trace *[]int
	seen  *map[string]string
	// cur is the statement being declared (for the attribution of a refusal)
	cur *Node
	// slow: the handlers have a shape that is none of the built-in fast ones, so
	// that a HandlerWrapper gets to see every one of them
	slow bool
}

func (b *builder) handler(id int) flamego.Handler {
	if b.slow {
		return func(ctx flamego.Context, _ *http.Request) {
			*b.trace = append(*b.trace, id)
			if *b.seen == nil {
				m := map[string]string{}
				for k, v := range ctx.Params() {
					m[k] = v
				}
				*b.seen = m
			}
		}
	}
	return func(ctx flamego.Context) {
		*b.trace = append(*b.trace, id)
		if *b.seen == nil {
			m := map[string]string{}
			for k, v := range ctx.Params() {
				m[k] = v
			}
			*b.seen = m
		}
	}
}

func (b *builder) handlers(n int, spare bool) []flamego.Handler {
	hs := make([]flamego.Handler, 0, n+3)
	for i := 0; i < n; i++ {
		hs = append(hs, b.handler(b.next))
		b.next++
	}
	if spare {
		return hs[:n] // capacity n+3: appends by the callee land in the shared array
	}
	return append([]flamego.Handler(nil), hs...)
}

func (b *builder) walk(nodes []Node) {
	f := b.f
	for _, n := range nodes {
		n := n
		if n.K != "group" {
			b.cur = &n
		}
		switch n.K {
		case "group":
			hs := b.handlers(n.H, n.Spare)
			f.Group(n.Path, func() { b.walk(n.Children) }, hs...)
		case "autohead":
			f.AutoHead(n.On)
		case "method":
			hs := b.handlers(n.H, n.Spare)
			switch strings.ToUpper(n.Methods[0]) {
			case "GET":
				f.Get(n.Path, hs...)
			case "POST":
				f.Post(n.Path, hs...)
			case "PUT":
				f.Put(n.Path, hs...)
			case "DELETE":
				f.Delete(n.Path, hs...)
			case "PATCH":
				f.Patch(n.Path, hs...)
			case "OPTIONS":
				f.Options(n.Path, hs...)
			case "HEAD":
				f.Head(n.Path, hs...)
			case "CONNECT":
				f.Connect(n.Path, hs...)
			case "TRACE":
				f.Trace(n.Path, hs...)
			}
		case "route":
			f.Route(n.Methods[0], n.Path, b.handlers(n.H, n.Spare))
		case "any":
			f.Any(n.Path, b.handlers(n.H, n.Spare)...)
		case "routes":
			hs := b.handlers(n.H, n.Spare)
			if n.Form == "args" {
				args := []flamego.Handler{}
				for _, m := range n.Methods[1:] {
					args = append(args, m)
				}
				args = append(args, hs...)
				f.Routes(n.Path, n.Methods[0], args...)
				if n.Again {
					// table-driven registration: the same argument list once more, for
					// another path
					f.Routes("/again"+n.Path, n.Methods[0], args...)
				}
			} else {
				f.Routes(n.Path, strings.Join(n.Methods, ", "), hs...)
			}
		case "combo":
			common := b.handlers(n.Common, n.Spare)
			cr := f.Combo(n.Path, common...)
			for _, m := range n.Methods {
				own := b.handlers(n.H, n.Spare)
				switch m {
				case "GET":
					cr.Get(own...)
				case "POST":
					cr.Post(own...)
				case "PUT":
					cr.Put(own...)
				case "DELETE":
					cr.Delete(own...)
				case "PATCH":
					cr.Patch(own...)
				case "OPTIONS":
					cr.Options(own...)
				case "HEAD":
					cr.Head(own...)
				case "CONNECT":
					cr.Connect(own...)
				case "TRACE":
					cr.Trace(own...)
				}
			}
		}
	}
}

type app struct {
	f     *flamego.Flame
	trace []int
	seen  map[string]string
	nf    bool
}

func newApp() *app {
	a := &app{f: flamego.NewWithLogger(io.Discard)}
	a.f.NotFound(func(ctx flamego.Context) { a.nf = true; ctx.ResponseWriter().WriteHeader(404) })
	return a
}

// wrap installs a HandlerWrapper that announces itself in the trace and then
// invokes the handler it was given.
func (a *app) wrap() {
	a.f.HandlerWrapper(func(h flamego.Handler) flamego.Handler {
		return func(ctx flamego.Context) {
			a.trace = append(a.trace, -1)
			if _, err := ctx.Invoke(h); err != nil {
				panic(err)
			}
		}
	})
}

func (a *app) serve(m, p string) ([]int, map[string]string, bool) {
	a.trace, a.seen, a.nf = nil, nil, false
	a.f.ServeHTTP(rt.NewSpy(), rt.NewRequest(m, p, nil))
	return a.trace, a.seen, a.nf
}

// probes returns request paths for a full route path: instances of it (both
// forms when the last segment is optional) and near misses that only a
// pattern different from the declared one would admit.
func probes(path string) []string {
	d := rt.Deriv(path)
	build := func(segs []model.Seg, variant int) string {
		var out []string
		for _, s := range segs {
			k, binds, _ := s.Classify()
			switch k {
			case model.KStatic:
				lit := ""
				if len(s.Elems) == 1 {
					lit = s.Elems[0].Lit
				}
				out = append(out, lit)
			case model.KPlaceholder:
				out = append(out, "v-"+binds[0])
			case model.KMatchAll:
				out = append(out, []string{"a/b", "a/b/c", "a"}[variant%3])
			case model.KRegex:
				out = append(out, []string{"42", "abc", "4x"}[variant%3])
			}
		}
		return "/" + strings.Join(out, "/")
	}
	seen := map[string]bool{}
	var ps []string
	add := func(p string) {
		if !seen[p] {
			seen[p] = true
			ps = append(ps, p)
		}
	}
	for v := 0; v < 3; v++ {
		add(build(d.Segs, v))
		if n := len(d.Segs); d.Segs[n-1].Optional {
			add(build(d.Segs[:n-1], v))
		}
	}
	return ps
}

func checkCase(c Case) (out evid.Outcome) {
	flat := flatten(c)
	// P: the program
	p := newApp()
	if c.Wrapper {
		p.wrap()
		out.Classes = append(out.Classes, "handler-wrapper")
	}
	pbuild := &builder{f: p.f, trace: &p.trace, seen: &p.seen, slow: c.Wrapper}
	perr := func() (err interface{}) {
		defer func() { err = recover() }()
		pbuild.walk(c.Program)
		return nil
	}()
	if perr != nil && pbuild.cur != nil && hasLowerMethod([]Node{*pbuild.cur}) {
		// a method name in another spelling than the standard upper-case one: that
		// Route / Routes take it is not part of the statement
		out.Excluded++
		out.Classes = append(out.Classes, "method-spelling-refused")
		return out
	}
	if perr != nil {
		return evid.Fail("program-rejected", "the program panicked at registration although all its routes are distinct and valid: %v; program %s", perr, js(c))
	}
	// Q: the flat list
	q := newApp()
	if c.Wrapper {
		q.wrap()
	}
	qb := &builder{f: q.f, trace: &q.trace, seen: &q.seen, slow: c.Wrapper}
	if c.BadJoin > 0 {
		nodes, flatPath := badJoin(c.BadJoin)
		refused := func(f func()) (r interface{}) {
			defer func() { r = recover() }()
			f()
			return nil
		}
		if refused(func() { q.f.Route("GET", flatPath, []flamego.Handler{func() {}}) }) == nil {
			panic("harness: the flat registration of " + flatPath + " was accepted")
		}
		pb := &builder{f: p.f, trace: &p.trace, seen: &p.seen, next: 100000}
		if refused(func() { pb.walk(nodes) }) == nil {
			return evid.Fail("ill-formed-concatenation-accepted", "the nested declaration %s concatenates to %q, which the flat registration refuses, but it was accepted; program %s", js(nodes), flatPath, js(c))
		}
		// a group left through a panic is left all the same: what is declared
		// afterwards is declared at the top level
		pAfter, qAfter := false, false
		if r := refused(func() { p.f.Get("/after-bj", func() { pAfter = true }) }); r != nil {
			return evid.Fail("scope-not-restored", "after the refused nested declaration %s, declaring \"/after-bj\" at the top level panicked: %v (the group was not left); program %s", js(nodes), r, js(c))
		}
		q.f.Route("GET", "/after-bj", []flamego.Handler{func() { qAfter = true }})
		p.f.ServeHTTP(rt.NewSpy(), rt.NewRequest("GET", "/after-bj", nil))
		q.f.ServeHTTP(rt.NewSpy(), rt.NewRequest("GET", "/after-bj", nil))
		if !qAfter {
			panic("harness: the flat instance does not serve /after-bj")
		}
		if !pAfter {
			return evid.Fail("scope-not-restored", "after the refused nested declaration %s a route declared at the top level (\"/after-bj\") is not reachable under its own path: the group was not left; program %s", js(nodes), js(c))
		}
		out.NonTrivial = true
		out.Classes = append(out.Classes, "ill-formed-concatenation-refused")
	}
	if c.DupCombo {
		refused := func(f func()) (r interface{}) {
			defer func() { r = recover() }()
			f()
			return nil
		}
		pRan, qRan := "", ""
		ph := func(tag string) flamego.Handler { return func() { pRan += tag } }
		qh := func(tag string) flamego.Handler { return func() { qRan += tag } }
		p.f.Post("/dc", ph("a"))
		q.f.Route("POST", "/dc", []flamego.Handler{qh("a")})
		if refused(func() { p.f.Combo("/dc", ph("common")).Get(ph("g")).Post(ph("b")) }) == nil {
			return evid.Fail("duplicate-accepted", "Combo(\"/dc\").Post was accepted although POST /dc exists; program %s", js(c))
		}
		q.f.Route("GET", "/dc", []flamego.Handler{qh("common"), qh("g")})
		if refused(func() { q.f.Route("POST", "/dc", []flamego.Handler{qh("common"), qh("b")}) }) == nil {
			panic("harness: the flat registration of a taken POST /dc was accepted")
		}
		p.f.Get("/after-dc", ph("own"))
		q.f.Route("GET", "/after-dc", []flamego.Handler{qh("own")})
		for _, probe := range [][2]string{{"GET", "/after-dc"}, {"GET", "/dc"}, {"POST", "/dc"}} {
			pRan, qRan = "", ""
			p.f.ServeHTTP(rt.NewSpy(), rt.NewRequest(probe[0], probe[1], nil))
			q.f.ServeHTTP(rt.NewSpy(), rt.NewRequest(probe[0], probe[1], nil))
			if pRan != qRan && !(pRan == "" && qRan == "commong") {
				return evid.Fail("refused-declaration-residue", "after Combo(\"/dc\", common).Get(g).Post(b) was refused at Post (POST /dc was taken): %s %s runs %q, after the flat expansion it runs %q; program %s", probe[0], probe[1], pRan, qRan, js(c))
			}
		}
		out.NonTrivial = true
		out.Classes = append(out.Classes, "combo-method-on-a-taken-path")
	}
	if c.DupGet > 0 {
		refused := func(f func()) (r interface{}) {
			defer func() { r = recover() }()
			f()
			return nil
		}
		pRan, qRan := "", ""
		ph := func(tag string) flamego.Handler { return func() { pRan += tag } }
		qh := func(tag string) []flamego.Handler { return []flamego.Handler{func() { qRan += tag }} }
		first := "GET"
		if c.DupGet == 2 {
			first = "HEAD"
		}
		p.f.AutoHead(false)
		p.f.Route(first, "/dg", []flamego.Handler{ph("a")})
		p.f.AutoHead(true)
		pRefused := refused(func() { p.f.Get("/dg", ph("b")) })
		p.f.AutoHead(false)
		q.f.Route(first, "/dg", qh("a"))
		var qRefused interface{}
		for _, m := range []string{"GET", "HEAD"} {
			if qRefused = refused(func() { q.f.Route(m, "/dg", qh("b")) }); qRefused != nil {
				break
			}
		}
		if qRefused == nil {
			panic("harness: the flat expansion of the second declaration was accepted")
		}
		if pRefused == nil {
			return evid.Fail("duplicate-accepted", "Get(\"/dg\") under AutoHead was accepted although %s /dg exists; program %s", first, js(c))
		}
		for _, m := range []string{"GET", "HEAD"} {
			pRan, qRan = "", ""
			p.f.ServeHTTP(rt.NewSpy(), rt.NewRequest(m, "/dg", nil))
			q.f.ServeHTTP(rt.NewSpy(), rt.NewRequest(m, "/dg", nil))
			ok := pRan == qRan
			if m == first {
				ok = pRan == "a" // the route that was there before is untouched
			} else if pRan == "" || pRan == "b" {
				// the other half of the refused declaration: registered before the
				// refusal was noticed, not registered, or taken back - the order in
				// which Get declares its two routes is its own business
				ok = true
			}
			if !ok {
				// (what the refused declaration had registered before it was refused
				// may stand, as after the flat expansion, or be taken back as a whole;
				// what it must not do is leave something the flat expansion never
				// reached, or touch the route that was there before)
				return evid.Fail("refused-declaration-residue", "%s /dg declared first, then Get(\"/dg\") under AutoHead (refused): %s /dg runs %q, after the flat expansion [GET /dg, HEAD /dg] (refused at its first taken entry) it runs %q; program %s", first, m, pRan, qRan, js(c))
			}
		}
		out.NonTrivial = true
		out.Classes = append(out.Classes, "get-under-autohead-on-a-taken-path")
	}
	for _, fr := range flat {
		var hs []flamego.Handler
		for _, id := range fr.IDs {
			hs = append(hs, qb.handler(id))
		}
		q.f.Route(fr.M, fr.Path, hs)
	}
	paths := map[string]bool{}
	var order []string
	for _, fr := range flat {
		if !paths[fr.Path] {
			paths[fr.Path] = true
			order = append(order, fr.Path)
		}
	}
	// a route that is nothing but one placeholder admits its siblings' paths
	// too: who answers then depends on methods and order, which the flat instance
	// decides (flatten's own per-route expectation is only used without one)
	competing := false
	for _, fr := range flat {
		last := fr.Path[strings.LastIndex(fr.Path, "/")+1:]
		if strings.HasPrefix(last, "{c") && strings.HasSuffix(last, "}") {
			competing = true
		}
	}
	if competing {
		out.Classes = append(out.Classes, "competing-routes")
	}
	expect := map[string][]int{}
	for _, fr := range flat {
		expect[fr.M+" "+fr.Path] = fr.IDs
	}
	for _, path := range order {
		for _, inst := range probes(path) {
			// the nine methods routes can be declared for, and two that no route
			// can be declared for (every declaration form must leave them to the
			// not-found chain, as the flat registrations do)
			for _, m := range append(append([]string{}, model.Methods...), "PROPFIND", "get") {
				out.Sub++
				pt, pp, pnf := p.serve(m, inst)
				qt, qp, qnf := q.serve(m, inst)
				desc := fmt.Sprintf("%s %s (probe of route %q)", m, inst, path)
				// P against Q (the flat instance decides what a probe must do:
				// both run the same matcher, only the way of declaring differs)
				if pnf != qnf || fmt.Sprint(pt) != fmt.Sprint(qt) {
					return fail(out, "program-vs-flat", "%s: the program ran handlers %v (not-found=%v), its flat expansion ran %v (not-found=%v); program %s", desc, pt, pnf, qt, qnf, js(c))
				}
				if !pnf && len(pt) > 0 && rt.Show(pp) != rt.Show(qp) {
					return fail(out, "params", "%s: parameters %s in the program, %s in the flat instance", desc, rt.Show(pp), rt.Show(qp))
				}
				// the first probe is an instance of the route: flatten says exactly
				// which handlers run for which method
				if inst == probes(path)[0] && !competing && m == strings.ToUpper(m) {
					want, registered := expect[m+" "+path]
					if registered && len(pt) > 0 {
						wp := wantParams(path)
						// (keys left behind by alternatives the matcher tried and abandoned
						// are C02's business; the route's own binds are held here)
						for k, wv := range wp {
							if pp[k] != wv {
								return fail(out, "params-expected", "%s: the handlers saw %s=%q, the probe was built with %q; all: %s", desc, k, pp[k], wv, rt.Show(pp))
							}
						}
					}
					if registered == pnf {
						return fail(out, "dispatch", "%s: flat expansion registered=%v but the program's not-found ran=%v; program %s", desc, registered, pnf, js(c))
					}
					if c.Wrapper {
						// (which handler shapes a wrapper gets to see is the framework's
						// business: the announcements are compared between P and Q above,
						// not with the flat expectation)
						var plain []int
						for _, id := range pt {
							if id != -1 {
								plain = append(plain, id)
							}
						}
						pt = plain
					}
					if fmt.Sprint(pt) != fmt.Sprint(want) {
						return fail(out, "handlers", "%s: program ran handlers %v, flat expansion is %v; program %s", desc, pt, want, js(c))
					}
				}
			}
		}
	}
	// classification
	depth, comboMulti, toggleBetweenGets, nestedSiblings := classify(c.Program, 0)
	if depth >= 2 {
		out.NonTrivial = true
		out.Classes = append(out.Classes, "depth>=2")
	}
	if comboMulti {
		out.NonTrivial = true
		out.Classes = append(out.Classes, "combo>=2")
	}
	if toggleBetweenGets {
		out.NonTrivial = true
		out.Classes = append(out.Classes, "autohead-toggle-between-gets")
	}
	if nestedSiblings {
		out.NonTrivial = true
		out.Classes = append(out.Classes, "siblings-in-nested-group")
	}
	if strings.Contains(js(c), `"same_arguments_again":true`) {
		out.Classes = append(out.Classes, "routes-arguments-reused")
	}
	return out
}

func hasLowerMethod(nodes []Node) bool {
	for _, n := range nodes {
		for _, m := range n.Methods {
			if m != strings.ToUpper(m) {
				return true
			}
		}
		if hasLowerMethod(n.Children) {
			return true
		}
	}
	return false
}

// wantParams: the parameters of the first probe of a route, from the values
// the probe was built from.
func wantParams(path string) map[string]string {
	out := map[string]string{}
	for _, s := range rt.Deriv(path).Segs {
		k, binds, _ := s.Classify()
		switch k {
		case model.KPlaceholder:
			out[binds[0]] = "v-" + binds[0]
		case model.KMatchAll:
			out[binds[0]] = "a/b"
		case model.KRegex:
			out[binds[0]] = "42"
		}
	}
	return out
}

func classify(nodes []Node, d int) (depth int, combo bool, toggle bool, siblings bool) {
	depth = d
	gets, toggles := 0, 0
	var walk func(ns []Node, d int, ghs int)
	walk = func(ns []Node, d int, ghs int) {
		if d > depth {
			depth = d
		}
		routes := 0
		for _, n := range ns {
			switch n.K {
			case "group":
				walk(n.Children, d+1, ghs+n.H)
			case "combo":
				routes++
				if len(n.Methods) >= 2 {
					combo = true
				}
				for _, m := range n.Methods {
					if m == "GET" {
						gets++
					}
				}
			case "autohead":
				if gets > 0 {
					toggles++
				}
			case "method":
				routes++
				if strings.ToUpper(n.Methods[0]) == "GET" {
					gets++
					if toggles > 0 {
						toggle = true
					}
				}
			default:
				routes++
			}
		}
		if d >= 2 && routes >= 2 && ghs > 0 {
			siblings = true
		}
	}
	walk(nodes, d, 0)
	return
}

func fail(out evid.Outcome, sig, format string, args ...interface{}) evid.Outcome {
	o := evid.Fail(sig, format, args...)
	o.NonTrivial, o.Classes, o.Sub = out.NonTrivial, out.Classes, out.Sub
	return o
}

func js(v interface{}) string {
	b, _ := json.Marshal(v)
	return string(b)
}

// ---- generator ----------------------------------------------------------------------

type gstate struct {
	routeN   int
	bindN    int
	autoHead bool
}

var nonGet = []string{"POST", "PUT", "DELETE", "PATCH", "OPTIONS", "CONNECT", "TRACE"}

func (g *gstate) routePath(t *rapid.T) string {
	g.routeN++
	p := fmt.Sprintf("/r%d", g.routeN)
	switch rapid.IntRange(0, 9).Draw(t, "rp") {
	case 0:
		g.bindN++
		p += fmt.Sprintf("/{b%d}", g.bindN)
	case 1:
		p += "/x"
	case 2:
		g.bindN++
		p += fmt.Sprintf("/{b%d: /[0-9]+/}", g.bindN)
	case 3:
		g.bindN++
		p += fmt.Sprintf("/{b%d: **, capture: 2}/end", g.bindN)
	case 4:
		g.bindN++
		p += fmt.Sprintf("/?{b%d}", g.bindN)
	case 5:
		p += "/?opt"
	case 6:
		p += "/" // a trailing slash is an extra, empty segment
	}
	return p
}

func (g *gstate) nodes(t *rapid.T, depth int, own string, bare bool, prefix string) []Node {
	var out []Node
	var seenGP []string // static group paths used at this level so far
	n := rapid.IntRange(1, 4).Draw(t, "nnodes")
	// once per group with a path of its own: the route of the group itself,
	// declared with the empty path
	usedEmpty := own == ""
	usedSlash := own == ""
	usedCatch := own == "" // (a group with a dynamic or empty path, or the top level: a second one next door would be the same route)
	// bare: the group path ends in a slash: children are spelled without a leading one
	routePath := func() string {
		if !usedEmpty && rapid.IntRange(0, 5).Draw(t, "emptypath") == 0 {
			usedEmpty = true
			return ""
		}
		if !usedSlash && !bare && rapid.IntRange(0, 7).Draw(t, "slashpath") == 0 {
			usedSlash = true
			return "/" // the index route of the group: "<group>/"
		}
		if !usedCatch && rapid.IntRange(0, 7).Draw(t, "catchall") == 0 {
			// a route that admits what its siblings' first segments look like: the
			// order of declaration and the method decide who answers
			usedCatch = true
			g.bindN++
			p := fmt.Sprintf("/{c%d}", g.bindN)
			if bare {
				p = p[1:]
			}
			return p
		}
		p := g.routePath(t)
		if bare {
			p = p[1:]
		} else if prefix != "" && !strings.Contains(prefix, "{") && !strings.HasSuffix(prefix, "/") && rapid.IntRange(0, 7).Draw(t, "repeatprefix") == 0 {
			// a child whose own path spells the whole prefix of the groups around
			// it once more (built from the same constant, say): concatenated all the same
			p = prefix + p
		}
		return p
	}
	for i := 0; i < n; i++ {
		k := rapid.IntRange(0, 11).Draw(t, "nk")
		spare := rapid.Bool().Draw(t, "spare")
		switch {
		case k < 3 && depth < 7 && (depth < 3 || rapid.IntRange(0, 1).Draw(t, "deeper") == 0):
			gp := []string{"", "/g", "/api", "/v1"}[rapid.IntRange(0, 3).Draw(t, "gp")]
			if rapid.IntRange(0, 4).Draw(t, "gdyn") == 0 {
				g.bindN++
				gp = fmt.Sprintf("/{b%d}", g.bindN)
			} else if gp != "" {
				g.routeN++
				gp = fmt.Sprintf("%s%d", gp, g.routeN)
				if !bare && rapid.IntRange(0, 5).Draw(t, "gslash") == 0 {
					gp += "/" // "/api3/": the children come without a leading slash
				}
			}
			if bare {
				if gp == "" {
					g.routeN++
					gp = fmt.Sprintf("x%d/", g.routeN)
				} else {
					gp = gp[1:]
					if !strings.HasSuffix(gp, "/") {
						gp += "/"
					}
				}
			}
			again := false
			if len(seenGP) > 0 && rapid.IntRange(0, 3).Draw(t, "samegroup") == 0 {
				// the path of an earlier group of this level once more, with a handler
				// list of its own (an open and a guarded part of one API, say)
				gp = seenGP[rapid.IntRange(0, len(seenGP)-1).Draw(t, "whichgroup")]
				again = true
			} else if gp != "" && !strings.Contains(gp, "{") {
				seenGP = append(seenGP, gp)
			}
			node := Node{K: "group", Path: gp, H: rapid.IntRange(0, 2).Draw(t, "gh"), Spare: spare}
			own := gp
			if strings.Contains(gp, "{") || again {
				own = "" // two such groups side by side would differ in the bind name only / would declare the group's own routes twice
			}
			node.Children = g.nodes(t, depth+1, own, strings.HasSuffix(gp, "/"), prefix+gp)
			out = append(out, node)
		case k < 5:
			out = append(out, Node{K: "method", Path: routePath(), Methods: []string{"GET"}, H: rapid.IntRange(0, 2).Draw(t, "h"), Spare: spare})
		case k < 6:
			m := model.Methods[rapid.IntRange(1, len(model.Methods)-1).Draw(t, "m")]
			out = append(out, Node{K: "method", Path: routePath(), Methods: []string{m}, H: rapid.IntRange(0, 2).Draw(t, "h"), Spare: spare})
		case k < 7:
			mpool := nonGet
			if !g.autoHead {
				mpool = append([]string{"GET", "HEAD"}, nonGet...) // what Route("GET") means under AutoHead is not stated
			}
			m := mpool[rapid.IntRange(0, len(mpool)-1).Draw(t, "m")]
			if rapid.Bool().Draw(t, "lower") {
				m = strings.ToLower(m)
			}
			out = append(out, Node{K: "route", Path: routePath(), Methods: []string{m}, H: rapid.IntRange(0, 2).Draw(t, "h"), Spare: spare})
		case k < 8:
			out = append(out, Node{K: "any", Path: routePath(), H: rapid.IntRange(0, 2).Draw(t, "h"), Spare: spare})
		case k < 9:
			rpool := nonGet
			if !g.autoHead {
				rpool = append([]string{"GET", "HEAD"}, nonGet...)
			}
			ms := pickDistinct(t, rpool, rapid.IntRange(1, 3).Draw(t, "nm"))
			if rapid.Bool().Draw(t, "lower") {
				ms[0] = strings.ToLower(ms[0])
			}
			rn := Node{K: "routes", Path: routePath(), Methods: ms, Form: []string{"list", "args"}[rapid.IntRange(0, 1).Draw(t, "form")], H: rapid.IntRange(0, 2).Draw(t, "h"), Spare: spare}
			rn.Again = rn.Form == "args" && strings.HasPrefix(rn.Path, "/r") && rapid.IntRange(0, 2).Draw(t, "again") == 0
			out = append(out, rn)
		case k < 11:
			pool := append([]string{"GET"}, nonGet...)
			if !g.autoHead {
				pool = append(pool, "HEAD")
			}
			ms := pickDistinct(t, pool, rapid.IntRange(1, 4).Draw(t, "nm"))
			first := Node{K: "combo", Path: routePath(), Methods: ms, Common: rapid.IntRange(0, 2).Draw(t, "common"), H: rapid.IntRange(0, 2).Draw(t, "h"), Spare: spare}
			out = append(out, first)
			if rapid.IntRange(0, 3).Draw(t, "comboagain") == 0 {
				// the same route declared by a second Combo call: other methods, its
				// own common handlers
				var rest []string
				for _, m := range pool {
					used := m == "HEAD" && g.autoHead
					for _, x := range ms {
						if x == m {
							used = true
						}
					}
					if !used {
						rest = append(rest, m)
					}
				}
				if len(rest) > 0 {
					ms2 := pickDistinct(t, rest, rapid.IntRange(1, 2).Draw(t, "nm2"))
					out = append(out, Node{K: "combo", Path: first.Path, Methods: ms2, Common: rapid.IntRange(0, 2).Draw(t, "common2"), H: rapid.IntRange(0, 2).Draw(t, "h2"), Spare: spare})
				}
			}
		default:
			// (switching on what is on, or off what is off, changes nothing)
			if rapid.IntRange(0, 3).Draw(t, "same") != 0 {
				g.autoHead = !g.autoHead
			}
			out = append(out, Node{K: "autohead", On: g.autoHead})
		}
	}
	return out
}

func pickDistinct(t *rapid.T, pool []string, n int) []string {
	perm := rapid.Permutation(pool).Draw(t, "perm")
	if n > len(perm) {
		n = len(perm)
	}
	return append([]string(nil), perm[:n]...)
}

func TestProp(t *testing.T) {
	evid.Rapid(t, "program", 2000, 30000, func(t *rapid.T) {
		g := &gstate{}
		c := Case{Program: g.nodes(t, 0, "", false, "")}
		if rapid.IntRange(0, 5).Draw(t, "badjoin") == 0 {
			c.BadJoin = rapid.IntRange(1, 3).Draw(t, "badjoink")
		}
		if rapid.IntRange(0, 7).Draw(t, "dupget") == 0 {
			c.DupGet = rapid.IntRange(1, 2).Draw(t, "dupgetk")
		}
		c.Wrapper = rapid.IntRange(0, 4).Draw(t, "wrapper") == 0
		c.DupCombo = rapid.IntRange(0, 7).Draw(t, "dupcombo") == 0
		evid.Run(t, "program", c, func() evid.Outcome { return checkCase(c) })
	})
}

// comboCall declares method m on a Combo route.
func comboCall(cr *flamego.ComboRoute, m string, h flamego.Handler) {
	switch m {
	case "GET":
		cr.Get(h)
	case "POST":
		cr.Post(h)
	case "PUT":
		cr.Put(h)
	case "DELETE":
		cr.Delete(h)
	case "PATCH":
		cr.Patch(h)
	case "OPTIONS":
		cr.Options(h)
	case "HEAD":
		cr.Head(h)
	case "CONNECT":
		cr.Connect(h)
	case "TRACE":
		cr.Trace(h)
	default:
		panic("harness: method " + m)
	}
}

// RepeatCase: methods declared on one Combo (inside a group or not), one of
// them declared a second time at the end.
type RepeatCase struct {
	Methods []string `json:"methods"` // distinct
	Again   int      `json:"again"`   // index into Methods
	Group   bool     `json:"in_group,omitempty"`
	// OtherScope: the second declaration is made through the same Combo value
	// inside another group ("/v2"), where no route of that path exists: it is the
	// Combo itself that has to refuse.
	OtherScope bool `json:"repeated_inside_another_group,omitempty"`
}

func checkRepeat(c RepeatCase) evid.Outcome {
	f := flamego.NewWithLogger(io.Discard)
	ran := ""
	path := "/c"
	var refused interface{}
	declare := func() {
		cr := f.Combo("/c")
		for _, m := range c.Methods {
			m := m
			comboCall(cr, m, func() { ran += "first-" + m })
		}
		func() {
			defer func() { refused = recover() }()
			if c.OtherScope {
				f.Group("/v2", func() { comboCall(cr, c.Methods[c.Again], func() { ran += "second" }) })
				return
			}
			comboCall(cr, c.Methods[c.Again], func() { ran += "second" })
		}()
	}
	if c.Group {
		path = "/g/c"
		f.Group("/g", declare)
	} else {
		declare()
	}
	out := evid.Outcome{Classes: []string{"combo-repeat"}, NonTrivial: len(c.Methods) > 1, Sub: len(c.Methods)}
	if c.Again < len(c.Methods)-1 {
		out.Classes = append(out.Classes, "combo-repeat-not-the-last-declared")
	}
	if refused == nil && c.OtherScope {
		return evid.Fail("combo-repeat-other-scope", "Combo accepted %s a second time (the repeat was made inside another group) after %v", c.Methods[c.Again], c.Methods)
	}
	if refused == nil {
		return evid.Fail("combo-repeat", "Combo accepted %s a second time after %v", c.Methods[c.Again], c.Methods)
	}
	if c.OtherScope {
		out.Classes = append(out.Classes, "combo-repeat-other-scope")
	}
	// what had been declared still answers, each method with its own handler
	for _, m := range c.Methods {
		ran = ""
		f.ServeHTTP(rt.NewSpy(), rt.NewRequest(m, path, nil))
		if ran != "first-"+m {
			return evid.Fail("combo-repeat-damage", "after the refused second %s: %s %s ran %q, want the handler declared first for %s; methods %v", c.Methods[c.Again], m, path, ran, m, c.Methods)
		}
	}
	return out
}

// TestComboRepeat: Combo refuses the same method twice - also when other
// methods were declared in between, also inside a group - and what was
// declared before keeps answering.
func TestComboRepeat(t *testing.T) {
	for _, m := range model.Methods {
		c := RepeatCase{Methods: []string{m}}
		evid.Run(t, "combo-repeat", c, func() evid.Outcome { return checkRepeat(c) })
	}
	evid.Rapid(t, "combo-repeat", 600, 6000, func(t *rapid.T) {
		perm := rapid.Permutation(model.Methods).Draw(t, "methods")
		c := RepeatCase{Methods: perm[:rapid.IntRange(1, 5).Draw(t, "n")], Group: rapid.Bool().Draw(t, "group")}
		c.Again = rapid.IntRange(0, len(c.Methods)-1).Draw(t, "again")
		c.OtherScope = rapid.IntRange(0, 2).Draw(t, "otherscope") == 0
		evid.Run(t, "combo-repeat", c, func() evid.Outcome { return checkRepeat(c) })
	})
}

func TestPinned(t *testing.T) {
	cases := []Case{
		// the fixed finding: common handlers with spare capacity
		{Program: []Node{{K: "combo", Path: "/c", Methods: []string{"GET", "POST"}, Common: 1, H: 1, Spare: true}}},
		// the repository's own group scenario
		{Program: []Node{
			{K: "method", Path: "/home", Methods: []string{"GET"}, H: 1},
			{K: "group", Path: "/api", Children: []Node{
				{K: "group", Path: "/v1", Children: []Node{{K: "method", Path: "/users", Methods: []string{"GET"}, H: 1}}},
				{K: "group", Path: "/v2", Children: []Node{{K: "method", Path: "/users", Methods: []string{"GET"}, H: 1}}},
			}},
			{K: "method", Path: "/repos", Methods: []string{"GET"}, H: 1},
		}},
	}
	for _, c := range cases {
		c := c
		evid.Run(t, "program", c, func() evid.Outcome { return checkCase(c) })
	}
}

func TestReplay(t *testing.T) {
	evid.Replay(t, map[string]evid.ReplayFn{
		"combo-repeat": func(raw json.RawMessage) evid.Outcome {
			var c RepeatCase
			if err := json.Unmarshal(raw, &c); err != nil {
				panic(err)
			}
			return checkRepeat(c)
		},
		"program": func(raw json.RawMessage) evid.Outcome {
			var c Case
			if err := json.Unmarshal(raw, &c); err != nil {
				panic(err)
			}
			return checkCase(c)
		},
	})
}
