// Package c07 decides property C07: serving is total - any request runs
// exactly one handler chain (the chosen route's or the not-found chain), never
// panics in the framework, and the outcome is a function of routes + request.
package c07

import (
	"encoding/json"
	"fmt"
	"net/http"
	"reflect"
	"regexp"
	"strconv"
	"strings"
	"testing"
	"time"

	"pgregory.net/rapid"

	"github.com/flamego/flamego/verifharness/internal/evid"
	"github.com/flamego/flamego/verifharness/internal/gen"
	"github.com/flamego/flamego/verifharness/internal/model"
	"github.com/flamego/flamego/verifharness/internal/rt"
)

const rule = "case = a valid route set (possibly empty; some routes header-constrained - now and then through two headers, with requests whose two values read alike side by side but are judged differently -, some with their constraints cleared again by Headers(); now and then 9..14 static subtrees under one node, with requests for segments that sort in front of, between and behind them; default, user-supplied or handler-less not-found set-up) and 1..8 requests whose method is any string (known, lower-case, unknown, empty, with blanks) and whose URL.Path is set directly to arbitrary bytes assembled from hostile pieces (empty, repeated/trailing slashes, '%', '%zz', NUL, 0xFF, route-syntax characters, runs up to 64 KiB / 4000 segments, instances of registered routes; optionally with an over-escaped URL.RawPath next to it), with nil or arbitrary headers (incl. constrained headers present with an empty list of values, 300 fields, a 70 KB value, the same field several times). " +
	"Oracle: nothing escapes ServeHTTP; the application middleware started exactly once; exactly one of {a route handler, the not-found chain} ran; unknown methods go to the not-found chain (a method that is a known one in another letter case is left open); serving the same request again gives the identical outcome, also on a fresh instance in reverse order; the handler that ran is the reference matcher's winner (paths of <=64 segments without newline; longer ones: the route that answered admits the path, and an admitted path is not left to not-found). " +
	"non-trivial = a case with a request whose path is not '/'-separated printable ASCII words (an escape, an empty segment, a non-UTF-8 or control byte, longer than 256 bytes) or whose method is not one of the nine; distinct by case text. Native fuzzing (thorough) decodes bytes into (route subset, method, not-found kind, header, path)"

var assumptions = []string{
	"requests carry a non-nil URL (net/http guarantees it)",
	"handlers of the generated applications do not panic themselves, except the ones marked so (they record that they ran and panic with a value of the harness): any other panic is the framework's",
}

func TestMain(m *testing.M) {
	// C07 states termination: a case that does not return is a violation
	evid.Watchdog(60 * time.Second)
	evid.Main(m, "C07", rule, assumptions)
}

// QReq is a request with method and path in strconv.Quote form (arbitrary bytes).
type QReq struct {
	M  string      `json:"m"`
	P  string      `json:"p"`
	H  [][2]string `json:"h,omitempty"`
	NH bool        `json:"nil_header,omitempty"`
	// EH are header names present with an empty list of values (what
	// in-place filtering of an http.Header leaves behind).
	EH []string `json:"empty_value_headers,omitempty"`
	// W: spelling on the wire (rt.Req.Wire)
	W string `json:"wire,omitempty"`
}

type Case struct {
	Regs         []rt.Reg `json:"routes"`
	UserNotFound bool     `json:"user_not_found"`
	// EmptyNotFound: NotFound() was called with no handlers at all.
	EmptyNotFound bool   `json:"empty_not_found,omitempty"`
	Reqs          []QReq `json:"requests"`
}

func unq(s string) string {
	u, err := strconv.Unquote(s)
	if err != nil {
		panic("harness: bad quoted string " + s)
	}
	return u
}

func trivialPath(p string) bool {
	if len(p) > 256 || !strings.HasPrefix(p, "/") || strings.HasSuffix(p, "/") || strings.Contains(p, "//") {
		return false
	}
	for i := 0; i < len(p); i++ {
		c := p[i]
		if c == '/' {
			continue
		}
		if !(c >= 'a' && c <= 'z' || c >= 'A' && c <= 'Z' || c >= '0' && c <= '9' || c == '-' || c == '.' || c == '_') {
			return false
		}
	}
	return true
}

func checkCase(c Case) (out evid.Outcome) {
	out.Sub = len(c.Reqs)
	mode := "default"
	if c.EmptyNotFound {
		mode = "empty"
	} else if c.UserNotFound {
		mode = "user"
	}
	app, _, perr := rt.NewAppMode(c.Regs, mode)
	if perr != nil {
		out.Excluded = 1
		out.Classes = append(out.Classes, "registration-rejected")
		return out
	}
	compiled := map[string][]model.MRoute{}
	var hits []rt.Hit
	defer func() {
		// the outcome is a function of the routes and the request: the same
		// requests on an instance that has seen nothing else, last one first,
		// give the same outcomes
		if out.Violation != "" || len(hits) != len(c.Reqs) {
			return
		}
		fresh, _, ferr := rt.NewAppMode(c.Regs, mode)
		if ferr != nil {
			return
		}
		for i := len(c.Reqs) - 1; i >= 0; i-- {
			qr := c.Reqs[i]
			q := rt.Req{M: unq(qr.M), P: unq(qr.P), H: qr.H, Wire: qr.W}
			h := serveOn(fresh, q, qr)
			if h.Boomed {
				h.Panic = nil
			}
			if mode == "empty" && h.Handler < 0 && h.Panic == nil {
				h.NotFound = true
			}
			if !reflect.DeepEqual(h, hits[i]) {
				out = fail(out, "history-dependent", "%q %q: outcome %+v after the requests before it, %+v on a fresh instance (requests served last first)", unq(qr.M), clip(unq(qr.P)), hits[i], h)
				return
			}
		}
	}()
	for _, qr := range c.Reqs {
		m, p := unq(qr.M), unq(qr.P)
		q := rt.Req{M: m, P: p, H: qr.H, Wire: qr.W}
		serve := func() (h rt.Hit) {
			defer func() {
				// with NotFound() nothing marks the not-found chain: it consists of
				// the application middleware only, which the chain counter saw
				if mode == "empty" && h.Handler < 0 && h.Panic == nil {
					h.NotFound = true
				}
			}()
			return serveOn(app, q, qr)
		}
		hit := serve()
		known := false
		for _, x := range model.Methods {
			if x == m {
				known = true
			}
		}
		if !trivialPath(p) {
			out.NonTrivial = true
			out.Classes = append(out.Classes, "hostile-path")
		}
		if !known {
			out.NonTrivial = true
			out.Classes = append(out.Classes, "unknown-method")
		}
		if len(p) > 4096 {
			out.Classes = append(out.Classes, "long-path")
		}
		desc := fmt.Sprintf("%q %s", m, strconv.QuoteToASCII(clip(p)))
		if hit.Boomed {
			// the chosen route's own handler panicked and nothing recovers: that
			// is the application's panic, not the router's. It comes out of
			// ServeHTTP - or not -, but it is no reason to start another chain
			hit.Panic = nil
			out.Classes = append(out.Classes, "handler-of-the-chosen-route-panics")
			if hit.NotFound {
				return fail(out, "both-or-neither", "%s: the handler of route #%d panicked and the not-found chain ran as well (chains started: %d); routes %v", desc, hit.Handler, hit.Chains, c.Regs)
			}
		}
		if hit.Panic != nil {
			return fail(out, "panic", "ServeHTTP panicked on %s: %v; routes %v", desc, hit.Panic, c.Regs)
		}
		if hit.Chains != 1 {
			return fail(out, "chains", "%s: the application middleware started %d times, want exactly once", desc, hit.Chains)
		}
		if (hit.Handler >= 0) == hit.NotFound {
			return fail(out, "both-or-neither", "%s: route handler ran=%v (#%d), not-found chain ran=%v (status %d)", desc, hit.Handler >= 0, hit.Handler, hit.NotFound, hit.Status)
		}
		if !known && !hit.NotFound && !(m != "" && isKnown(strings.ToUpper(m))) {
			return fail(out, "unknown-method-dispatched", "%s: unknown method was dispatched to handler #%d", desc, hit.Handler)
		}
		again := serve()
		if again.Boomed {
			again.Panic = nil
		}
		if !reflect.DeepEqual(hit, again) {
			return fail(out, "nondeterministic", "%s: first outcome %+v, second outcome %+v", desc, hit, again)
		}
		hits = append(hits, hit)
		if hit.Handler >= 0 {
			out.Classes = append(out.Classes, "dispatched")
		} else {
			out.Classes = append(out.Classes, "not-found")
		}
		// the reference winner
		if strings.Contains(p, "\n") {
			continue
		}
		if !known && m != "" && isKnown(strings.ToUpper(m)) {
			// "get", "Get": whether that is the method GET is not said (registration
			// folds case, C08 leaves the spelling open): nothing further is held
			out.Classes = append(out.Classes, "request-method-spelling-open")
			continue
		}
		routes, ok := compiled[m]
		if !ok {
			routes = rt.Compiled(c.Regs, m)
			for i := range routes {
				if hs := c.Regs[routes[i].Index].H; len(hs) > 0 && !c.Regs[routes[i].Index].HC {
					routes[i].Headers = map[string]*regexp.Regexp{}
					for j := 1; j < len(hs); j += 2 {
						routes[i].Headers[hs[j-1]] = regexp.MustCompile(hs[j])
					}
				}
			}
			compiled[m] = routes
		}
		hdr := q.Header()
		if strings.Count(p, "/") > 64 {
			// the reference winner costs too much on very long paths; what is held
			// instead: the route that answered admits the path on its own, and a
			// path some route admits is not left to the not-found chain
			adm := model.Admitting(routes, p, hdr, nil)
			okServed := hit.Handler < 0
			for _, a := range adm {
				if a.Route.Index == hit.Handler {
					okServed = true
				}
			}
			if !okServed {
				return fail(out, "wrong-outcome", "%s: handler #%d ran, whose route does not admit the path; routes %v", desc, hit.Handler, c.Regs)
			}
			if hit.Handler < 0 && len(adm) > 0 {
				return fail(out, "wrong-outcome", "%s: left to the not-found chain although route #%d admits the path; routes %v", desc, adm[0].Route.Index, c.Regs)
			}
			out.Classes = append(out.Classes, "very-long-path-admission-only")
			continue
		}
		want := model.Match(routes, p, hdr, nil)
		wi := -1
		if want.Found {
			wi = want.Route.Index
		}
		if wi != hit.Handler {
			return fail(out, "wrong-outcome", "%s: handler #%d ran, reference matcher gives #%d; routes %v", desc, hit.Handler, wi, c.Regs)
		}
	}
	return out
}

func isKnown(m string) bool {
	for _, x := range model.Methods {
		if x == m {
			return true
		}
	}
	return false
}

// serveOn sends one request (with its odd header shapes) to an application.
func serveOn(app *rt.App, q rt.Req, qr QReq) rt.Hit {
	req := q.HTTP()
	switch {
	case qr.NH:
		req.Header = nil
	case len(qr.EH) > 0:
		for _, name := range qr.EH {
			req.Header[name] = []string{}
		}
	default:
		return app.Serve(q)
	}
	return app.ServeRaw(req)
}

func clip(s string) string {
	if len(s) > 200 {
		return s[:100] + "..." + s[len(s)-60:]
	}
	return s
}

func fail(out evid.Outcome, sig, format string, args ...interface{}) evid.Outcome {
	o := evid.Fail(sig, format, args...)
	o.NonTrivial, o.Classes, o.Sub = out.NonTrivial, out.Classes, out.Sub
	return o
}

// ---- generator -----------------------------------------------------------------

var pieces = []string{
	"", "/", "//", "///", "%", "%zz", "%2F", "%41", "%00", "\x00", "\xff", "\xc3", "é", " ", "?", "{", "}", "{a}", "**", ":", ",",
	"a", "b", "users", "12", "x.y", "a+b", "..", ".", "\t", "\r", "%E4%BD%A0", "#", "\\", "*", "%25", "%2", "%%",
}

var methods = []string{"GET", "POST", "PUT", "DELETE", "PATCH", "OPTIONS", "HEAD", "CONNECT", "TRACE", "get", "Get", "", " ", "GET ", "BREW", "*", "PROPFIND", "G\x00T", "\xff"}

func genPath(t *rapid.T, regs []rt.Reg) string {
	switch rapid.IntRange(0, 9).Draw(t, "pk") {
	case 0, 1, 2: // hostile pieces
		n := rapid.IntRange(0, 8).Draw(t, "np")
		var b strings.Builder
		for i := 0; i < n; i++ {
			if rapid.IntRange(0, 2).Draw(t, "sl") > 0 {
				b.WriteString("/")
			}
			b.WriteString(pieces[rapid.IntRange(0, len(pieces)-1).Draw(t, "pc")])
		}
		return b.String()
	case 3, 4, 5: // an instance, then corrupted
		if len(regs) == 0 {
			return "/"
		}
		d := rt.Deriv(regs[rapid.IntRange(0, len(regs)-1).Draw(t, "ri")].R)
		segs := gen.MutatePath(t, gen.Instance(t, d, rapid.Bool().Draw(t, "sh")), pieces)
		p := gen.JoinPath(t, segs)
		if rapid.Bool().Draw(t, "corrupt") {
			b := []byte(p)
			j := rapid.IntRange(0, len(b)).Draw(t, "cj")
			pc := pieces[rapid.IntRange(0, len(pieces)-1).Draw(t, "cp")]
			b = append(b[:j:j], append([]byte(pc), b[j:]...)...)
			p = string(b)
		}
		return p
	case 6: // arbitrary bytes
		return string(rapid.SliceOfN(rapid.Byte(), 0, 40).Draw(t, "raw"))
	case 7: // very long run
		unit := []string{"a", "/", "/a", "%", "/%zz", "a/", "\xff", "/12"}[rapid.IntRange(0, 7).Draw(t, "unit")]
		n := []int{300, 1000, 4000, 16000, 65536}[rapid.IntRange(0, 4).Draw(t, "len")]
		return "/" + strings.Repeat(unit, n/len(unit))
	case 8: // many segments built from an instance
		if len(regs) == 0 {
			return strings.Repeat("/x", 500)
		}
		d := rt.Deriv(regs[rapid.IntRange(0, len(regs)-1).Draw(t, "ri")].R)
		inst := "/" + strings.Join(gen.Instance(t, d, false), "/")
		return inst + strings.Repeat("/"+pieces[rapid.IntRange(0, len(pieces)-1).Draw(t, "tail")], rapid.IntRange(1, 4000).Draw(t, "ntail"))
	default:
		return ""
	}
}

func genCase(t *rapid.T) Case {
	var c Case
	if rapid.IntRange(0, 7).Draw(t, "noroutes") != 0 {
		ms := []string{"GET"}
		if rapid.Bool().Draw(t, "multi") {
			ms = []string{"GET", "POST", "*", "head"}
		}
		c.Regs, _ = gen.RouteSet(t, gen.SetOpts{Methods: ms, MaxRoutes: 6})
	}
	if rapid.IntRange(0, 5).Draw(t, "oddcapture") == 0 {
		// a capture limit that is not a positive number means "no limit"; such a
		// route may be refused at registration (then the case is skipped) but
		// must not make routing panic
		oc := []string{"-1", "0", "-9"}[rapid.IntRange(0, 2).Draw(t, "ocv")]
		r := []string{"/oc/{p: **, capture: " + oc + "}/raw/{name}", "/oc/{p: **, capture: " + oc + "}"}[rapid.IntRange(0, 1).Draw(t, "ock")]
		c.Regs = append(c.Regs, rt.Reg{M: "GET", R: r})
	}
	wide := 0
	if rapid.IntRange(0, 7).Draw(t, "wide") == 0 {
		// many static subtrees under one node (with, now and then, a match-all
		// route next to them)
		wide = rapid.IntRange(9, 14).Draw(t, "nwide")
		for i := 0; i < wide; i++ {
			c.Regs = append(c.Regs, rt.Reg{M: "GET", R: fmt.Sprintf("/wd/w%c/leaf", 'a'+i)})
		}
		if rapid.IntRange(0, 2).Draw(t, "widerest") == 0 {
			c.Regs = append(c.Regs, rt.Reg{M: "GET", R: "/wd/{rest: **}"})
		}
	}
	c.UserNotFound = rapid.Bool().Draw(t, "unf")
	c.EmptyNotFound = rapid.IntRange(0, 5).Draw(t, "enf") == 0
	// some routes are header-constrained
	for i := range c.Regs {
		if rapid.IntRange(0, 9).Draw(t, "boom") == 0 {
			c.Regs[i].Boom = true
		}
		if rapid.IntRange(0, 7).Draw(t, "cleared") == 0 {
			// Headers() with no pairs: the route is unconstrained (again)
			c.Regs[i].HC = true
		}
		if rapid.IntRange(0, 3).Draw(t, "constrained") == 0 {
			c.Regs[i].H = []string{[]string{"X-Api", "x-api", "Accept"}[rapid.IntRange(0, 2).Draw(t, "hn")], []string{"", "^v1$", "[0-9]+"}[rapid.IntRange(0, 2).Draw(t, "he")]}
		}
	}
	n := rapid.IntRange(1, 8).Draw(t, "nreqs")
	for i := 0; i < n; i++ {
		m := "GET"
		if rapid.IntRange(0, 2).Draw(t, "mk") == 0 {
			m = methods[rapid.IntRange(0, len(methods)-1).Draw(t, "m")]
		} else if len(c.Regs) > 0 {
			ex := model.ExpandMethod(c.Regs[rapid.IntRange(0, len(c.Regs)-1).Draw(t, "mr")].M)
			m = ex[rapid.IntRange(0, len(ex)-1).Draw(t, "mi")]
		}
		pth := genPath(t, c.Regs)
		if wide > 0 && rapid.IntRange(0, 2).Draw(t, "widereq") == 0 {
			// around the static subtrees: one of them, and segments that sort in
			// front of, between and behind them
			pth = "/wd/" + []string{"wa", "wc", fmt.Sprintf("w%c", 'a'+wide-1), "w", "wb0", "wzz", "zulu", "~", "A", "wa/", ""}[rapid.IntRange(0, 10).Draw(t, "wseg")] +
				[]string{"/leaf", "/leaf", "/x", "/", ""}[rapid.IntRange(0, 4).Draw(t, "wtail")]
		}
		if len(c.Regs) > 0 && rapid.IntRange(0, 9).Draw(t, "keysplit") == 0 {
			// method and path are two strings, not one: split "<METHOD><path>" of
			// a registered static-looking route somewhere else
			g := c.Regs[rapid.IntRange(0, len(c.Regs)-1).Draw(t, "ks")]
			ms := model.ExpandMethod(g.M)
			joined := ms[rapid.IntRange(0, len(ms)-1).Draw(t, "ksm")] + "/" + strings.Join(gen.Instance(t, rt.Deriv(g.R), false), "/")
			k := rapid.IntRange(0, len(joined)).Draw(t, "ksk")
			m, pth = joined[:k], joined[k:]
		}
		q := QReq{M: strconv.QuoteToASCII(m), P: strconv.QuoteToASCII(pth), W: gen.Wire(t)}
		switch rapid.IntRange(0, 8).Draw(t, "hk") { // 5 = an empty, non-nil header map
		case 6: // very many header fields, the constrained one last
			for k := 0; k < 300; k++ {
				q.H = append(q.H, [2]string{fmt.Sprintf("X-Filler-%d", k), strings.Repeat("f", k%17)})
			}
			q.H = append(q.H, [2]string{"X-Api", []string{"v1", "7"}[rapid.IntRange(0, 1).Draw(t, "xv")]})
		case 7: // the same field several times with the same value, and a huge value
			// ("7" gives the same verdict for each of the three expressions in use
			// whether the first value, any value or the joined list is looked at)
			v := "7"
			q.H = [][2]string{{"X-Api", v}, {"Accept", strings.Repeat("7", 70000)}, {"X-Api", v}, {"X-Api", v}}
		case 8: // the names in other spellings (the request's map is canonical all the same)
			q.H = [][2]string{{"x-api", "v1"}, {"ACCEPT", "12"}}
		case 0:
			q.NH = true
		case 1:
			q.H = [][2]string{{"X-Real-IP", "\x00"}, {"", ""}, {"Accept", strings.Repeat("a", 100)}}
		case 2:
			q.H = [][2]string{{"Content-Length", "-1"}, {"Host", "\xff"}}
		case 3:
			q.H = [][2]string{{"X-Api", []string{"v1", "", "7", "v2"}[rapid.IntRange(0, 3).Draw(t, "xv")]}}
		case 4:
			q.EH = []string{"X-Api", "Accept"}
		}
		c.Reqs = append(c.Reqs, q)
	}
	if len(c.Regs) > 0 && rapid.IntRange(0, 5).Draw(t, "cutpair") == 0 {
		// a route constrained through two headers, and requests for it whose two
		// values read the same when put side by side ("712" + "a", "7" + "12a") but
		// are judged differently: the outcome is a function of the request, not of
		// what an earlier request looked like
		i := rapid.IntRange(0, len(c.Regs)-1).Draw(t, "cutreg")
		c.Regs[i].H, c.Regs[i].HC = []string{"X-Api", "[0-9]+", "Accept", "^(a|b|7|1)$"}, false
		ms := model.ExpandMethod(c.Regs[i].M)
		m := ms[rapid.IntRange(0, len(ms)-1).Draw(t, "cutm")]
		pth := "/" + strings.Join(gen.Instance(t, rt.Deriv(c.Regs[i].R), false), "/")
		// (some pairs read alike in either order of the two headers)
		pairs := [][2][2]string{{{"712", "a"}, {"7", "12a"}}, {{"77", "7"}, {"7", "77"}}, {{"12", "b"}, {"1", "2b"}}, {{"111", "1"}, {"1", "111"}}, {{"7", "7777"}, {"7777", "7"}}}[rapid.IntRange(0, 4).Draw(t, "cutvals")]
		order := []int{0, 1, 0}
		if rapid.Bool().Draw(t, "cutorder") {
			order = []int{1, 0, 1}
		}
		for _, k := range order {
			c.Reqs = append(c.Reqs, QReq{M: strconv.QuoteToASCII(m), P: strconv.QuoteToASCII(pth), H: [][2]string{{"X-Api", pairs[k][0]}, {"Accept", pairs[k][1]}}})
		}
	}
	return c
}

func TestProp(t *testing.T) {
	evid.Rapid(t, "serve", 3000, 40000, func(t *rapid.T) {
		c := genCase(t)
		evid.Run(t, "serve", c, func() evid.Outcome { return checkCase(c) })
	})
}

// ---- native fuzzing ----------------------------------------------------------------

var library = []string{
	"/", "/a", "/a/b", "/a/", "/users/{name}", "/users/{name}/?events", "/{x}", "/{x}/b", "/{n: /[0-9]+/}", "/{n: /[0-9]+/}/b",
	"/{p: **}", "/{q: **}/b", "/a/{r: **, capture: 2}", "/a/?b", "/{x}/?{y}", "/{w: /[a-z]+/}/{v}", "/?z",
	"/files/{paths: **}/raw/{name}", "/{year: /[0-9]{4}/}-{month: /[0-9]{2}/}.html", `/c/{sha: /[a-f0-9]{7,40}/}{ext: /(\.(patch|diff))?/}`,
	"/a+b{t}", "/f(g{u}", "/%41", "/x.y/{s}", "/{**}/tail", "/v1/{a}/{b}/{c}", "/{k: /(x|y)z/}-{l}", "/s/{m: /a|b/}/?{o: /[0-9]*/}",
	"/deep/a/b/c/d/e", "/deep/{a1}/b/{c1}/d/{e1: **, capture: 3}", "/$", "/~t/?{h: **}", "/q/?r", "/{i}.{j}", "/e=1", "/(z)/{z}",
	"/k./{kk: /[\\w]+/}", "/m/{mm: **}/n/{nn}", "/o/{oo: /.+/}", "/p/{pp}/",
}

func decodeFuzz(data []byte) Case {
	var c Case
	get := func(i int) byte {
		if i < len(data) {
			return data[i]
		}
		return 0
	}
	mask := uint64(get(0)) | uint64(get(1))<<8 | uint64(get(2))<<16 | uint64(get(3))<<24 | uint64(get(4))<<32
	g := model.NewRegistrar()
	for i, r := range library {
		if mask&(1<<uint(i)) == 0 {
			continue
		}
		d := rt.Deriv(r)
		if v, _ := g.Check("GET", d); v != model.MustAccept {
			continue
		}
		g.Add("GET", d)
		c.Regs = append(c.Regs, rt.Reg{M: "GET", R: r})
	}
	flags := get(5)
	c.UserNotFound = flags&1 != 0
	m := "GET"
	if flags&2 != 0 {
		m = methods[int(get(6))%len(methods)]
	}
	p := ""
	if len(data) > 7 {
		p = string(data[7:])
	}
	q := QReq{M: strconv.QuoteToASCII(m), P: strconv.QuoteToASCII(p), NH: flags&4 != 0}
	c.Reqs = []QReq{q}
	return c
}

func FuzzServe(f *testing.F) {
	f.Add([]byte("\xff\xff\xff\xff\xff\x00\x00/users/x/events"))
	f.Add([]byte("\xff\xff\xff\xff\xff\x01\x00/a//b/"))
	f.Add([]byte("\x00\x10\x00\x00\x00\x00\x00/files/a/b/c/raw/x"))
	f.Add([]byte("\xff\xff\xff\xff\xff\x03\x0a/%zz/%/\x00"))
	f.Add([]byte("\xff\xff\xff\xff\xff\x00\x00/c/368c7b2d0b1e0b243b2.patch"))
	f.Add([]byte("\x00\x00\x00\x20\x00\x00\x00/deep/1/b/2/d/3/4/5/6"))
	f.Fuzz(func(t *testing.T, data []byte) {
		c := decodeFuzz(data)
		out := evid.Protect(func() evid.Outcome { return checkCase(c) })
		if out.Violation != "" {
			raw, _ := json.Marshal(c)
			t.Fatalf("VIOLATION-CASE %s\n%s", raw, out.Violation)
		}
	})
}

func TestReplay(t *testing.T) {
	evid.Replay(t, map[string]evid.ReplayFn{
		"serve": func(raw json.RawMessage) evid.Outcome {
			var c Case
			if err := json.Unmarshal(raw, &c); err != nil {
				panic(err)
			}
			return checkCase(c)
		},
	})
}

var _ = http.StatusOK
