// Package c15 decides property C15: with Recovery installed no panic of a later
// handler escapes ServeHTTP, the client gets 500 iff no status had been sent,
// detail only in development mode, outer middleware completes, and later
// requests are served as if nothing had happened.
package c15

import (
	"bufio"
	gocontext "context"
	"encoding/json"
	"errors"
	"fmt"
	"io"
	"net"
	"net/http"
	"os"
	"reflect"
	"strings"
	"testing"
	"time"

	"pgregory.net/rapid"

	"github.com/flamego/flamego"
	"github.com/flamego/flamego/verifharness/internal/evid"
	"github.com/flamego/flamego/verifharness/internal/rt"
)

const rule = "case = environment in {development, production, test} x Recovery placed as application middleware, group handler or first route handler x optionally a client that has gone away (every body write of a panicking request fails below; only escape, status and the middleware in front are judged then) x 0..2 recording middleware before it (the outermost sometimes sends status 202 and a few bytes before Next()) x Recovery installed once or twice (with a recording middleware between the two), before the first request or only after both routes have been requested once x optionally an application that has mapped a ReturnHandler of its own (it only writes lone strings) x optionally a handler that re-maps http.ResponseWriter to a plain embedding wrapper x 1..3 later handlers (route handlers; or the last one as the final action; or all of them as the not-found chain), each of the shape func(Context), func(Context) error / string (returning nil / the empty string), func(ResponseWriter, *Request) or http.HandlerFunc and a program over {write a status, write body bytes, Next(), cancel the request context, panic(value) - from ordinary code, from 150 frames further down, from a function whose source file cannot be read or from the last line of a source file that does not end with a newline -, require an unresolvable dependency, write with a registered before-function that panics, WriteHeader with a code the underlying writer rejects by panicking, a Hijack that fails} with panic values of kinds {string, error, runtime error, struct, http.ErrAbortHandler, custom error, integer, typed-nil error, slice, map, struct with a slice field, the empty string, an error with an empty message}; GET or HEAD, optionally with Accept or Connection/Upgrade request headers; the environment may change between construction and requests x a sequence of 1..4 requests mixing the panicking route and a healthy one. " +
	"Oracle: nothing escapes ServeHTTP and every request returns (60 s watchdog); an interpreter of the handler programs says what had been sent before the panic: status = that status, or 500 if none; body = the earlier bytes followed by a tail that (development) shows the panic value, (otherwise) shows neither the value nor stack frames; every recording middleware logged its code after Next(); a healthy request answers exactly like on a fresh instance. " +
	"non-trivial = a case with a panic after a write, or inside a nested Next(), or with a non-string value, or with a failed dependency resolution, or followed by a healthy request; distinct by case text"

var assumptions = []string{
	"panic values are non-nil (statement)",
	"'with Recovery installed': Use(Recovery()) protects the requests served after the call, also on routes that have answered requests before",
	"the process-global environment (SetEnv) is set per case; cases run one at a time in a process",
	"'the client gets status 500' includes what the framework's own writer reports: a middleware in front of Recovery that reads ResponseWriter().Status() after Next() reads the status the client got",
	"a chain in which nothing panics answers what its handlers wrote (the interpreter's reading of Next / cancellation is C03's; such cases serve as the healthy baseline here)",
}

func TestMain(m *testing.M) {
	evid.Watchdog(60 * time.Second) // a Recovery that never returns (a lock never released) is a violation too
	evid.Main(m, "C15", rule, assumptions)
}

// H is a handler program: ops "s<code>", "b", "n", "c" (cancel the request
// context), "p:<kind>", "pg:<kind>" (the same from a function whose source file
// does not exist, as generated code compiled elsewhere), "inj", "bfw" (register
// a before-function that panics, then write body bytes), "xc" (WriteHeader with
// a code the underlying writer rejects by panicking), "hj" (a Hijack that fails), "cf" (io.Copy from a source that fails before its first byte, right before a panic).
type H struct {
	Ops []string `json:"ops"`
	// Shape: "" = func(Context); "http" = func(http.ResponseWriter, *http.Request);
	// "handlerfunc" = http.HandlerFunc (both are wrapped by the built-in fast
	// invoker and cannot call Next).
	Shape string `json:"shape,omitempty"`
	// Ret (shape ""): the handler has a result and returns the empty value of
	// it: "nilerr" = func(Context) error returning nil, "emptystr" =
	// func(Context) string returning "" (nothing is rendered for either).
	Ret string `json:"returns,omitempty"`
}

type Case struct {
	// EnvAtBuild is the environment while the application (and the Recovery
	// middleware) is constructed; Env is the environment when requests arrive.
	EnvAtBuild string   `json:"env_at_build,omitempty"`
	Env        string   `json:"env"`
	Outer      int      `json:"outer"`
	RecoveryAt string   `json:"recovery_at"` // use | group | route
	After      []H      `json:"after"`
	Reqs       []string `json:"requests"`         // "p" | "ok"
	Method     string   `json:"method,omitempty"` // GET (default) or HEAD; routes answer both
	// WrapWriter: a handler right behind Recovery re-maps http.ResponseWriter to
	// a plain wrapper struct (which has none of the optional writer interfaces).
	WrapWriter bool `json:"wrap_writer,omitempty"`
	// Site: where the later handlers sit: "" = all are handlers of the route;
	// "action" = the last one is the Flame's final action; "notfound" = they are
	// the not-found chain (Recovery as application middleware only).
	Site string `json:"site,omitempty"`
	// ReqHdr: what a recovery might look at besides the panic - request headers,
	// where the request says it comes from (a loopback address in RemoteAddr,
	// X-Real-IP or X-Forwarded-For is no licence to show detail), a request body
	// that is short or still open: "" none, "accept-json"
	// (Accept: application/json), "upgrade" (Connection: Upgrade, Upgrade: websocket),
	// "accept-html".
	ReqHdr string `json:"request_headers,omitempty"`
	// OuterWrites: the outermost recording middleware sends status 202 and the
	// bytes "pre;" before it calls Next(): a status has been sent by then.
	OuterWrites bool `json:"outer_writes,omitempty"`
	// Twice: Recovery is installed twice, with a recording middleware between the two.
	Twice bool `json:"recovery_twice,omitempty"`
	// Late (Recovery as application middleware only): the routes are declared
	// and the healthy one is requested once before Recovery is installed with Use.
	Late bool `json:"recovery_installed_after_first_request,omitempty"`
	// OwnReturn: the application has mapped a ReturnHandler of its own (it
	// writes a returned string and ignores everything else): what Recovery sends
	// is not a handler's return value.
	OwnReturn bool `json:"own_return_handler,omitempty"`
	// Gone: the client of the panicking requests has gone away: every body write
	// fails at the underlying writer (status lines are still taken). Nothing may
	// escape all the same, the status is the one that was due, middleware in
	// front completes; what the body would have been is not looked at.
	Gone bool `json:"client_gone,omitempty"`
}

// plainWriter is the usual embedding wrapper: http.ResponseWriter and nothing else.
type plainWriter struct{ http.ResponseWriter }

func flamegoWriter(w http.ResponseWriter) flamego.ResponseWriter {
	if pw, ok := w.(plainWriter); ok {
		w = pw.ResponseWriter
	}
	return w.(flamego.ResponseWriter)
}

type customErr struct{ code int }

func (e customErr) Error() string { return fmt.Sprintf("custom error %d", e.code) }

type unmapped struct{ x int }

func panicValue(kind string) interface{} {
	switch kind {
	case "string":
		return "boom-string"
	case "error":
		return errors.New("boom-error")
	case "struct":
		return struct{ A int }{424242}
	case "abort":
		return http.ErrAbortHandler
	case "custom":
		return customErr{7}
	case "int":
		return 987654321
	case "emptystr":
		// non-nil values that print as nothing
		return ""
	case "emptyerr":
		return errors.New("")
	case "slice":
		return []int{515151, 2}
	case "map":
		return map[string]int{"fortytwo-in-map": 1}
	case "ncstruct":
		return struct{ Xs []string }{[]string{"fortytwo-in-struct"}}
	case "cjk":
		// a message of 40 characters that take 120 bytes, and one of accented
		// letters: lengths in bytes and in characters differ
		return errors.New(strings.Repeat("\u9519\u8bef\u4fe1\u606f", 10))
	case "accents":
		return strings.Repeat("\u00e9\u00e8\u00fc\u00f1", 12) + "!"
	case "typednil":
		// a non-nil interface value holding a nil pointer whose Error method
		// dereferences the receiver
		var e *os.PathError
		var err error = e
		return err
	}
	return "boom"
}

// beforeBoom is assembled at run time: the development page quotes source
// lines, which must not contain the token that stands for the panic value.
func beforeBoom() string { return strings.Join([]string{"before", "function", "went", "boom"}, "-") }

// raiseDeep panics 'depth' frames further down.
//
//go:noinline
func raiseDeep(depth int, kind string) int {
	if depth == 0 {
		raise(kind)
	}
	return raiseDeep(depth-1, kind) + 1
}

func raise(kind string) {
	if kind == "runtime" {
		// a run-time panic raised by the Go runtime itself; the text of the error
		// is made at run time ("index out of range [717] with length 3"), so no
		// source line quoted in a stack trace contains it
		xs := make([]int, 3)
		xs[len(kind)+710]++
	}
	panic(panicValue(kind))
}

// showsToken: the text contains the token as it is or, for a token outside
// ASCII, in one of the ASCII-safe spellings a page may choose (\uXXXX escapes,
// numeric character references in decimal or hexadecimal).
func showsToken(text, token string) bool {
	if strings.Contains(text, token) {
		return true
	}
	ascii := true
	var esc, dec, hex strings.Builder
	for _, r := range token {
		if r > 127 {
			ascii = false
		}
		fmt.Fprintf(&esc, "\\u%04x", r)
		fmt.Fprintf(&dec, "&#%d;", r)
		fmt.Fprintf(&hex, "&#x%x;", r)
	}
	if ascii {
		return false
	}
	low := strings.ToLower(text)
	return strings.Contains(low, esc.String()) || strings.Contains(text, dec.String()) || strings.Contains(low, hex.String())
}

// panicToken is a piece of text that any reasonable rendering of the panic
// value contains (the statement does not fix the formatting).
func panicToken(kind string) string {
	switch kind {
	case "runtime":
		return "[717]"
	case "string":
		return "boom-string"
	case "error":
		return "boom-error"
	case "struct":
		return "424242"
	case "slice":
		return "515151"
	case "map":
		return "fortytwo-in-map"
	case "ncstruct":
		return "fortytwo-in-struct"
	case "abort":
		return http.ErrAbortHandler.Error()
	case "custom":
		return "custom error 7"
	case "int":
		return "987654321"
	case "cjk":
		return "\u9519\u8bef\u4fe1\u606f\u9519\u8bef"
	case "accents":
		return "\u00e9\u00e8\u00fc\u00f1\u00e9\u00e8"
	case "inj":
		return "unmapped" // the unresolvable type is named (C04); the wording around it is free
	case "before":
		return beforeBoom()
	case "badcode":
		return "invalid WriteHeader code"
	}
	return "" // typednil: how the value prints is open; the page must still be the panic page (see the check)
}

// ---- interpreter of the handlers after Recovery --------------------------------

type sim struct {
	hs        []H
	cancelled bool
	cursor    int
	status    int
	body      string
	panicked  string // kind of the panic that reached Recovery ("" = none)
	nested    bool
	depth     int
	copyOpen  bool // an empty io.Copy came before anything was sent
}

type simPanic struct{ kind string }

func (m *sim) write(code int, s string) {
	if m.status == 0 {
		m.status = code
	}
	m.body += s
}

func (m *sim) run() {
	for m.cursor < len(m.hs) {
		if m.cancelled {
			return
		}
		i := m.cursor
		m.cursor++
		for _, op := range m.hs[i].Ops {
			switch {
			case op[0] == 's':
				var code int
				fmt.Sscanf(op[1:], "%d", &code)
				m.write(code, "")
			case op == "b":
				m.write(200, fmt.Sprintf("h%d;", i))
			case op == "bfw":
				// a before-function that panics is registered, then the body is
				// written: it fires iff this write is the one that commits the response
				if m.status == 0 {
					if m.depth > 0 {
						m.nested = true
					}
					panic(simPanic{"before"})
				}
				m.write(200, fmt.Sprintf("h%d;", i))
			case op == "xc":
				// WriteHeader(1000): the underlying writer panics, as net/http does,
				// unless a status has been sent already (then the call is dropped)
				if m.status == 0 {
					if m.depth > 0 {
						m.nested = true
					}
					panic(simPanic{"badcode"})
				}
			case op == "hj":
				// a failed Hijack changes nothing
			case op == "cf":
				// io.Copy from a source that fails before its first byte: nothing is
				// forwarded. (A writer with a ReadFrom of its own may send the 200 all
				// the same, as net/http's does: then that is the status - see copyOpen.)
				if m.status == 0 {
					m.copyOpen = true
				}
			case op == "n":
				m.depth++
				m.run()
				m.depth--
			case op == "c":
				m.cancelled = true
			case strings.HasPrefix(op, "pg:"), strings.HasPrefix(op, "pd:"):
				if m.depth > 0 {
					m.nested = true
				}
				panic(simPanic{op[3:]})
			case strings.HasPrefix(op, "p:"):
				if m.depth > 0 {
					m.nested = true
				}
				panic(simPanic{op[2:]})
			case op == "inj":
				if m.depth > 0 {
					m.nested = true
				}
				panic(simPanic{"inj"})
			}
		}
		if m.status != 0 {
			return
		}
	}
}

func simulate(hs []H, outerWrote bool) (m *sim) {
	m = &sim{hs: hs}
	if outerWrote {
		m.write(202, "pre;")
	}
	defer func() {
		if r := recover(); r != nil {
			sp, ok := r.(simPanic)
			if !ok {
				panic(r)
			}
			m.panicked = sp.kind
		}
	}()
	m.run()
	return m
}

// ---- the application ---------------------------------------------------------------

type app struct {
	primed     bool
	late       []flamego.Handler
	reqHdr     string
	gone       bool
	f          *flamego.Flame
	seenStatus []int // Status() as read by each recording middleware after Next()
	log        []string
	cancel     func()
}

func build(c Case) *app {
	a := &app{f: flamego.NewWithLogger(io.Discard), reqHdr: c.ReqHdr}
	if c.OwnReturn {
		a.f.Map(flamego.ReturnHandler(func(ctx flamego.Context, vals []reflect.Value) {
			if len(vals) == 1 && vals[0].Kind() == reflect.String && vals[0].Len() > 0 {
				_, _ = ctx.ResponseWriter().Write([]byte(vals[0].String()))
			}
		}))
	}
	for k := 0; k < c.Outer; k++ {
		k := k
		a.f.Use(func(ctx flamego.Context) {
			a.log = append(a.log, fmt.Sprintf("pre %d", k))
			if k == 0 && c.OuterWrites {
				ctx.ResponseWriter().WriteHeader(202)
				_, _ = ctx.ResponseWriter().Write([]byte("pre;"))
			}
			ctx.Next()
			a.log = append(a.log, fmt.Sprintf("post %d", k))
			// what a logging middleware would read once Next() is back
			a.seenStatus = append(a.seenStatus, ctx.ResponseWriter().Status())
		})
	}
	var hs []flamego.Handler
	for i, h := range c.After {
		i, h := i, h
		needsInj := false
		for _, op := range h.Ops {
			if op == "inj" {
				needsInj = true
			}
		}
		run := func(ctx flamego.Context, w http.ResponseWriter) {
			for _, op := range h.Ops {
				switch {
				case op[0] == 's':
					var code int
					fmt.Sscanf(op[1:], "%d", &code)
					w.WriteHeader(code)
				case op == "b":
					_, _ = w.Write([]byte(fmt.Sprintf("h%d;", i)))
				case op == "bfw":
					flamegoWriter(w).Before(func(flamego.ResponseWriter) { panic(beforeBoom()) })
					_, _ = w.Write([]byte(fmt.Sprintf("h%d;", i)))
				case op == "xc":
					w.WriteHeader(1000)
				case op == "hj":
					if hj, ok := w.(http.Hijacker); ok {
						_, _, _ = hj.Hijack()
					}
				case op == "cf":
					_, _ = io.Copy(w, failingSource{})
				case strings.HasPrefix(op, "pd:"):
					// the panic comes from the bottom of a deep call stack (a
					// recursive descent, a long chain of small helpers)
					raiseDeep(150, op[3:])
				case strings.HasPrefix(op, "pg:"):
					if len(op)%2 == 0 {
						raiseFromGenerated(op[3:])
					} else {
						raiseFromLastLine(op[3:])
					}
				case op == "n":
					ctx.Next()
				case op == "c":
					if a.cancel != nil {
						a.cancel()
					}
				case strings.HasPrefix(op, "p:"):
					raise(op[2:])
				}
			}
		}
		body := func(ctx flamego.Context) { run(ctx, ctx.ResponseWriter()) }
		switch h.Shape {
		case "http":
			hs = append(hs, func(w http.ResponseWriter, r *http.Request) { run(nil, w) })
			continue
		case "handlerfunc":
			hs = append(hs, http.HandlerFunc(func(w http.ResponseWriter, r *http.Request) { run(nil, w) }))
			continue
		}
		if needsInj {
			// the dependency cannot be resolved: the body must not run at all,
			// the framework panics instead (ops before "inj" are ignored by the
			// generator for such handlers)
			hs = append(hs, func(ctx flamego.Context, _ *unmapped) { body(ctx) })
		} else if h.Ret == "nilerr" {
			hs = append(hs, func(ctx flamego.Context) error { body(ctx); return nil })
		} else if h.Ret == "emptystr" {
			hs = append(hs, func(ctx flamego.Context) string { body(ctx); return "" })
		} else {
			hs = append(hs, body)
		}
	}
	if c.WrapWriter {
		hs = append([]flamego.Handler{func(ctx flamego.Context) {
			ctx.MapTo(plainWriter{ctx.ResponseWriter()}, (*http.ResponseWriter)(nil))
		}}, hs...)
	}
	ok := func(ctx flamego.Context) string { return "ok" }
	if c.Site == "action" {
		a.f.Action(hs[len(hs)-1])
		hs = hs[:len(hs)-1]
	}
	rec := []flamego.Handler{flamego.Recovery()}
	if c.Twice {
		// (with a recording middleware between the two: it is placed before a
		// Recovery, and completes its code after Next() like any other)
		rec = append(rec, func(ctx flamego.Context) {
			a.log = append(a.log, "pre between")
			ctx.Next()
			a.log = append(a.log, "post between")
		}, flamego.Recovery())
	}
	switch c.RecoveryAt {
	case "use":
		if !c.Late {
			a.f.Use(rec...)
		}
		if c.Site == "notfound" {
			a.f.NotFound(hs...) // "/p" is not registered: the chain is the not-found chain
		} else {
			a.f.Routes("/p", "GET,HEAD", hs...)
		}
		a.f.Routes("/ok", "GET,HEAD", ok)
		if c.Late {
			a.late = rec // installed by prime(), after both routes have been requested once
		}
	case "group":
		a.f.Group("/g", func() {
			a.f.Routes("/p", "GET,HEAD", hs...)
			a.f.Routes("/ok", "GET,HEAD", ok)
		}, rec...)
	case "route":
		a.f.Routes("/p", "GET,HEAD", append(append([]flamego.Handler{}, rec...), hs...)...)
		a.f.Routes("/ok", "GET,HEAD", append(append([]flamego.Handler{}, rec...), ok)...)
	}
	return a
}

// prime requests both routes once (a panic of the unprotected route comes out
// of ServeHTTP, as it must) and installs Recovery only then.
func (a *app) prime(c Case) {
	if a.late == nil {
		return
	}
	serveM(a, "GET", c.path("ok"))
	serveM(a, "GET", c.path("p"))
	a.f.Use(a.late...)
	a.late, a.primed = nil, true
	a.log, a.seenStatus = nil, nil
}

func (c Case) path(which string) string {
	p := "/" + which
	if c.RecoveryAt == "group" {
		p = "/g" + p
	}
	return p
}

type resp struct {
	status  int
	body    string
	escaped interface{}
}

func serve(a *app, path string) (r resp) { return serveM(a, "GET", path) }

// strictSpy is the spy with two traits of net/http's own writer: an invalid
// status code panics, and Hijack exists but may fail.
type strictSpy struct{ *rt.Spy }

func (s strictSpy) WriteHeader(code int) {
	if code < 100 || code > 999 {
		panic(fmt.Sprintf("invalid WriteHeader code %v", code))
	}
	s.Spy.WriteHeader(code)
}

func (s strictSpy) Hijack() (net.Conn, *bufio.ReadWriter, error) {
	return nil, nil, errors.New("hijacking is not supported on this connection")
}

// failingSource is a reader (and nothing more) that fails before its first byte.
type failingSource struct{}

func (failingSource) Read([]byte) (int, error) { return 0, errors.New("upstream closed the stream") }

func serveM(a *app, method, path string) (r resp) {
	spy := rt.NewSpy()
	spy.Gone = a.gone
	hdr := http.Header{}
	switch a.reqHdr {
	case "accept-json":
		hdr.Set("Accept", "application/json")
	case "accept-html":
		hdr.Set("Accept", "text/html,application/xhtml+xml;q=0.9,*/*;q=0.8")
	case "upgrade":
		hdr.Set("Connection", "Upgrade")
		hdr.Set("Upgrade", "websocket")
	case "x-real-ip-loopback":
		hdr.Set("X-Real-IP", "127.0.0.1")
	case "x-forwarded-for-loopback":
		hdr.Set("X-Forwarded-For", "::1")
	}
	req := rt.NewRequest(method, path, hdr)
	switch a.reqHdr {
	case "remote-loopback":
		req.RemoteAddr = "127.0.0.1:49152"
	case "remote-loopback-v6":
		req.RemoteAddr = "[::1]:49152"
	case "body-open":
		// an upload that is still going on: the body neither ends nor fails
		// (it ends after a while: a recovery that waits for the end of the body
		// before it answers is slow, not wrong - one that waits for ever is)
		pr, pw := io.Pipe()
		stop := time.AfterFunc(300*time.Millisecond, func() { pw.Close() })
		defer stop.Stop()
		defer pw.Close()
		req.Body = pr
		req.ContentLength = -1
	case "body-short":
		req.Body = io.NopCloser(strings.NewReader("k=v&payload=123"))
		req.ContentLength = 15
	}
	ctx, cancel := gocontext.WithCancel(gocontext.Background())
	defer cancel()
	a.cancel = cancel
	req = req.WithContext(ctx)
	func() {
		defer func() { r.escaped = recover() }()
		a.f.ServeHTTP(strictSpy{spy}, req)
	}()
	r.status = spy.Status()
	r.body = string(spy.Body)
	return r
}

func setEnv(e string) {
	switch e {
	case "production":
		flamego.SetEnv(flamego.EnvTypeProd)
	case "test":
		flamego.SetEnv(flamego.EnvTypeTest)
	default:
		flamego.SetEnv(flamego.EnvTypeDev)
	}
}

func checkCase(c Case) (out evid.Outcome) {
	if c.EnvAtBuild != "" {
		setEnv(c.EnvAtBuild)
	} else {
		setEnv(c.Env)
	}
	defer flamego.SetEnv(flamego.EnvTypeDev)
	out.Sub = len(c.Reqs)
	a := build(c)
	freshApp := build(c)
	a.prime(c)
	freshApp.prime(c)
	if c.Late && c.RecoveryAt == "use" {
		out.NonTrivial = true
		out.Classes = append(out.Classes, "recovery-installed-after-first-requests")
	}
	setEnv(c.Env)
	if c.EnvAtBuild != "" && c.EnvAtBuild != c.Env {
		out.NonTrivial = true
		out.Classes = append(out.Classes, "env-changed-after-build")
	}
	// normalise handlers that need an unresolvable dependency: nothing of their body runs
	hs := make([]H, len(c.After))
	for i, h := range c.After {
		hs[i] = h
		for _, op := range h.Ops {
			if op == "inj" {
				hs[i] = H{Ops: []string{"inj"}}
			}
		}
	}
	outerWrote := c.OuterWrites && c.Outer > 0
	if outerWrote && c.WrapWriter {
		// the re-mapping handler comes first and the response is written already
		// when it returns: none of the later handlers is started
		hs = nil
	}
	want := simulate(hs, outerWrote)
	if outerWrote {
		out.NonTrivial = true
		out.Classes = append(out.Classes, "status-sent-by-outer-middleware")
	}
	if c.Twice {
		out.Classes = append(out.Classes, "recovery-twice")
	}
	if c.OwnReturn {
		out.Classes = append(out.Classes, "own-return-handler")
	}
	method := c.Method
	if method == "" {
		method = "GET"
	}
	head := method == "HEAD"
	fresh := serveM(freshApp, method, c.path("ok"))
	okStatus, okBody := 200, "ok"
	if outerWrote {
		okStatus, okBody = 202, "pre;ok"
	}
	if fresh.escaped != nil || fresh.status != okStatus || (fresh.body != okBody && !(head && fresh.body == "")) {
		return evid.Fail("healthy-baseline", "a fresh instance answers the healthy route with %+v", fresh)
	}
	sawPanic := false
	for i, which := range c.Reqs {
		a.log, a.seenStatus = nil, nil
		a.gone = c.Gone && which != "ok"
		got := serveM(a, method, c.path(which))
		a.gone = false
		desc := fmt.Sprintf("request %d (%s) of %s", i, which, js(c))
		if got.escaped != nil {
			return fail(out, "escaped", "a panic escaped ServeHTTP: %v; %s", got.escaped, desc)
		}
		for k := 0; k < c.Outer; k++ {
			if !contains(a.log, fmt.Sprintf("post %d", k)) || !contains(a.log, fmt.Sprintf("pre %d", k)) {
				return fail(out, "outer-middleware", "recording middleware %d did not complete its code after Next(): log %v; %s", k, a.log, desc)
			}
		}
		if contains(a.log, "pre between") && !contains(a.log, "post between") {
			return fail(out, "outer-middleware", "the recording middleware between the two Recovery handlers did not complete its code after Next(): log %v; %s", a.log, desc)
		}
		if which == "ok" {
			if got.status != fresh.status || got.body != fresh.body {
				return fail(out, "unhealthy-after-panic", "healthy request answered %d %q, a fresh instance answers %d %q; %s", got.status, got.body, fresh.status, fresh.body, desc)
			}
			if sawPanic {
				out.NonTrivial = true
				out.Classes = append(out.Classes, "healthy-after-panic")
			}
			continue
		}
		// (who drops the body bytes of a HEAD response is C13's business: nothing
		// at all, or what GET would get, are both taken)
		headSwallowed := head && got.body == ""
		if want.panicked == "" {
			if got.status != want.status || (got.body != want.body && !headSwallowed && !c.Gone) {
				return fail(out, "no-panic-response", "response %d %q, the handlers wrote %d %q; %s", got.status, got.body, want.status, want.body, desc)
			}
			out.Classes = append(out.Classes, "no-panic")
			continue
		}
		sawPanic = true
		if want.panicked == "badcode" {
			// what happens to a status code the underlying writer would reject is
			// not specified (the wrapper may panic, answer 500 itself or ignore
			// the call): only "nothing escapes, outer middleware completes" is held
			out.NonTrivial = true
			out.Classes = append(out.Classes, "kind:badcode")
			continue
		}
		wantStatus := want.status
		if wantStatus == 0 {
			wantStatus = 500
		}
		for k, st := range a.seenStatus {
			if st != wantStatus && !(want.copyOpen && want.status == 0 && st == 200 && got.status == 200) {
				return fail(out, "outer-middleware-status", "recording middleware (the %d. to return) reads Status() = %d after Next(), the response has status %d; %s", k+1, st, wantStatus, desc)
			}
		}
		if want.copyOpen && want.status == 0 && got.status == 200 {
			// the empty copy made the writer send a real 200 (its own ReadFrom): the
			// status that was sent before the panic stands
			wantStatus = 200
			out.Classes = append(out.Classes, "empty-copy-committed-200")
		}
		if got.status != wantStatus {
			return fail(out, "status", "status %d, want %d (status sent before the panic: %d); %s", got.status, wantStatus, want.status, desc)
		}
		if headSwallowed && !c.Gone {
			out.NonTrivial = true
			out.Classes = append(out.Classes, "head")
			continue
		}
		if c.Gone {
			out.NonTrivial = true
			out.Classes = append(out.Classes, "client-gone")
			continue
		}
		if !strings.HasPrefix(got.body, want.body) {
			return fail(out, "body-prefix", "body %q does not start with the bytes written before the panic %q; %s", clip(got.body), want.body, desc)
		}
		tail := got.body[len(want.body):]
		// "panic detail appears in the body only in development mode": the
		// statement does not fix the wording of either page, so only the presence
		// / absence of the detail (the rendered value, stack frames) is checked
		token := panicToken(want.panicked)
		if c.EnvAtBuild != "" && c.EnvAtBuild != c.Env && (c.Env == "development" || c.EnvAtBuild == "development") {
			// the mode was switched between construction and this request, one of
			// the two being development: which of them "development mode" refers
			// to is not said, detail may or may not be shown
			out.Classes = append(out.Classes, "env-changed-detail-open")
		} else if c.Env == "development" {
			if token == "" && !strings.Contains(strings.ToUpper(tail), "PANIC") {
				return fail(out, "dev-detail", "development mode: body tail %q is not a panic page; %s", clip(tail), desc)
			}
			if token != "" && !showsToken(tail, token) {
				return fail(out, "dev-detail", "development mode: body tail %q does not show the panic value (looking for %q); %s", clip(tail), token, desc)
			}
		} else {
			if (token != "" && showsToken(tail, token)) || strings.Contains(tail, "c15_test.go") || strings.Contains(tail, "goroutine ") {
				return fail(out, "detail-leak", "%s mode: the body shows panic detail: %q; %s", c.Env, clip(tail), desc)
			}
		}
		// classification
		if want.status != 0 {
			out.NonTrivial = true
			out.Classes = append(out.Classes, "panic-after-write")
		}
		if want.nested {
			out.NonTrivial = true
			out.Classes = append(out.Classes, "panic-in-nested-next")
		}
		if want.panicked != "string" {
			out.NonTrivial = true
			out.Classes = append(out.Classes, "kind:"+want.panicked)
		}
		if want.cancelled {
			out.NonTrivial = true
			out.Classes = append(out.Classes, "panic-with-cancelled-context")
		}
	}
	if c.ReqHdr != "" {
		out.Classes = append(out.Classes, "request:"+c.ReqHdr)
	}
	for _, h := range c.After {
		for _, op := range h.Ops {
			if strings.HasPrefix(op, "pd:") {
				out.Classes = append(out.Classes, "panic-from-a-deep-stack")
			}
		}
	}
	out.Classes = append(out.Classes, "env:"+c.Env, "at:"+c.RecoveryAt)
	return out
}

func contains(xs []string, s string) bool {
	for _, x := range xs {
		if x == s {
			return true
		}
	}
	return false
}

func clip(s string) string {
	if len(s) > 160 {
		return s[:160] + "..."
	}
	return s
}

func fail(out evid.Outcome, sig, format string, args ...interface{}) evid.Outcome {
	o := evid.Fail(sig, format, args...)
	o.NonTrivial, o.Classes, o.Sub = out.NonTrivial, out.Classes, out.Sub
	return o
}

func js(v interface{}) string {
	b, _ := json.Marshal(v)
	return string(b)
}

var kinds = []string{"string", "error", "runtime", "struct", "abort", "custom", "int", "typednil", "slice", "map", "ncstruct", "cjk", "accents", "emptystr", "emptyerr"}

func genCase(t *rapid.T) Case {
	c := Case{
		Env:        []string{"development", "production", "test"}[rapid.IntRange(0, 2).Draw(t, "env")],
		Outer:      rapid.IntRange(0, 2).Draw(t, "outer"),
		RecoveryAt: []string{"use", "group", "route"}[rapid.IntRange(0, 2).Draw(t, "at")],
	}
	c.Method = []string{"GET", "GET", "GET", "HEAD"}[rapid.IntRange(0, 3).Draw(t, "method")]
	c.WrapWriter = rapid.IntRange(0, 4).Draw(t, "wrapwriter") == 0
	c.ReqHdr = []string{"", "", "", "accept-json", "upgrade", "accept-html", "x-real-ip-loopback", "x-forwarded-for-loopback", "remote-loopback", "remote-loopback-v6", "body-open", "body-short"}[rapid.IntRange(0, 11).Draw(t, "reqhdr")]
	c.OuterWrites = c.Outer > 0 && !c.WrapWriter && rapid.IntRange(0, 4).Draw(t, "outerwrites") == 0
	c.Twice = rapid.IntRange(0, 5).Draw(t, "twice") == 0
	c.OwnReturn = rapid.IntRange(0, 4).Draw(t, "ownreturn") == 0
	c.Gone = rapid.IntRange(0, 5).Draw(t, "gone") == 0
	c.Late = c.RecoveryAt == "use" && rapid.IntRange(0, 4).Draw(t, "late") == 0
	switch rapid.IntRange(0, 5).Draw(t, "site") {
	case 0:
		c.Site = "action"
	case 1:
		if c.RecoveryAt == "use" {
			c.Site = "notfound"
		}
	}
	if rapid.IntRange(0, 2).Draw(t, "envswitch") == 0 {
		c.EnvAtBuild = []string{"development", "production", "test"}[rapid.IntRange(0, 2).Draw(t, "envbuild")]
	}
	n := rapid.IntRange(1, 3).Draw(t, "nafter")
	for i := 0; i < n; i++ {
		var h H
		h.Shape = []string{"", "", "", "http", "handlerfunc"}[rapid.IntRange(0, 4).Draw(t, "shape")]
		for j, k := 0, rapid.IntRange(0, 4).Draw(t, "nops"); j < k; j++ {
			switch w := rapid.IntRange(0, 12).Draw(t, "op"); {
			case w == 12:
				h.Ops = append(h.Ops, "c")
			case w < 3 && h.Shape != "":
				h.Ops = append(h.Ops, "b") // the net/http shapes cannot call Next
			case w < 3:
				h.Ops = append(h.Ops, "n")
			case w < 5:
				h.Ops = append(h.Ops, "b")
			case w < 7:
				h.Ops = append(h.Ops, fmt.Sprintf("s%d", []int{200, 201, 404, 503}[rapid.IntRange(0, 3).Draw(t, "code")]))
			case w < 10:
				pre := []string{"p:", "p:", "p:", "pg:", "pd:"}[rapid.IntRange(0, 4).Draw(t, "pfrom")]
				if rapid.IntRange(0, 4).Draw(t, "copyfirst") == 0 {
					// the handler streams from a source that fails at once, and panics with what it got
					h.Ops = append(h.Ops, "cf")
				}
				h.Ops = append(h.Ops, pre+kinds[rapid.IntRange(0, len(kinds)-1).Draw(t, "kind")])
			case w < 11:
				h.Ops = append(h.Ops, []string{"bfw", "xc", "hj", "hj"}[rapid.IntRange(0, 3).Draw(t, "odd")])
			default:
				if h.Shape == "" {
					h.Ops = append(h.Ops, "inj")
				}
			}
		}
		if h.Shape == "" && rapid.IntRange(0, 3).Draw(t, "ret") == 0 {
			h.Ret = []string{"nilerr", "emptystr"}[rapid.IntRange(0, 1).Draw(t, "retk")]
		}
		c.After = append(c.After, h)
	}
	hasPanic := false
	for _, h := range c.After {
		for _, op := range h.Ops {
			if op == "bfw" || op == "xc" || op == "inj" || strings.HasPrefix(op, "p") {
				hasPanic = true
			}
		}
	}
	if !hasPanic && rapid.IntRange(0, 3).Draw(t, "forcepanic") > 0 {
		last := &c.After[len(c.After)-1]
		last.Ops = append(last.Ops, "p:"+kinds[rapid.IntRange(0, len(kinds)-1).Draw(t, "fkind")])
	}
	for i, k := 0, rapid.IntRange(1, 4).Draw(t, "nreqs"); i < k; i++ {
		c.Reqs = append(c.Reqs, []string{"p", "p", "ok"}[rapid.IntRange(0, 2).Draw(t, "req")])
	}
	return c
}

func TestProp(t *testing.T) {
	evid.Rapid(t, "recovery", 1500, 25000, func(t *rapid.T) {
		c := genCase(t)
		evid.Run(t, "recovery", c, func() evid.Outcome { return checkCase(c) })
	})
}

func TestReplay(t *testing.T) {
	evid.Replay(t, map[string]evid.ReplayFn{
		"recovery": func(raw json.RawMessage) evid.Outcome {
			var c Case
			if err := json.Unmarshal(raw, &c); err != nil {
				panic(err)
			}
			return checkCase(c)
		},
	})
}
