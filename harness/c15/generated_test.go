package c15

// The function below claims to come from a source file that does not exist on
// this machine (generated code, a binary built elsewhere or with -trimpath):
// whatever Recovery does with source files must cope with that.

//line /nonexistent/generated/handlers.go:10
func raiseFromGenerated(kind string) { raise(kind) }

// The function below claims to sit on the last line of a file that does not end
// with a newline (testdata/lastline.go.src, line 4): legal for generated code.

//line /verif/harness/c15/testdata/lastline.go.src:4
func raiseFromLastLine(kind string) { raise(kind) }
