package c15

// The function below claims to come from a source file that does not exist on
// this machine (generated code, a binary built elsewhere or with -trimpath):
// whatever Recovery does with source files must cope with that.

//line /nonexistent/generated/handlers.go:10
func raiseFromGenerated(kind string) { raise(kind) }
