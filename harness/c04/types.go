package c04

import (
	"reflect"
)

// The type universe of the injection checks.

type S1 struct{ ID int }
type S2 struct{ ID int }
type S3 struct{ ID int }
type N1 int
type N2 string

// Values of these three cannot be compared with ==.
type L1 []int
type M1 map[string]int
type Fn func() int

// I0 is the empty interface: every registered type implements it.
type I0 = interface{}

type I1 interface{ M1() int }
type I2 interface {
	M1() int
	M2() int
}
type I3 interface{ M3() int }

// I4 is "sealed": it has an unexported method, so its method count differs from
// the number of exported methods of its implementors.
type I4 interface {
	M1() int
	sealed()
}

func (s *S1) M1() int { return s.ID }
func (s *S1) sealed() {}
func (n N1) sealed()  {}
func (s *S2) M1() int { return s.ID }
func (s *S2) M2() int { return s.ID }
func (s S3) M3() int  { return s.ID }
func (n N1) M1() int  { return int(n) }

var (
	tS1   = reflect.TypeOf(S1{})
	tS2   = reflect.TypeOf(S2{})
	tS3   = reflect.TypeOf(S3{})
	tPS1  = reflect.TypeOf(&S1{})
	tPS2  = reflect.TypeOf(&S2{})
	tPS3  = reflect.TypeOf(&S3{})
	tN1   = reflect.TypeOf(N1(0))
	tN2   = reflect.TypeOf(N2(""))
	tChan = reflect.TypeOf(make(chan int))
	tRecv = reflect.TypeOf((<-chan int)(nil))
	tI1   = reflect.TypeOf((*I1)(nil)).Elem()
	tI2   = reflect.TypeOf((*I2)(nil)).Elem()
	tI3   = reflect.TypeOf((*I3)(nil)).Elem()
	tI4   = reflect.TypeOf((*I4)(nil)).Elem()
	tI0   = reflect.TypeOf((*I0)(nil)).Elem()
	tL1   = reflect.TypeOf(L1(nil))
	tM1   = reflect.TypeOf(M1(nil))
	tFn   = reflect.TypeOf(Fn(nil))
	// composite types without a name of their own: types like any other for
	// the injector (a row of arguments, a list of names, a generic document, a
	// plain callback, a pair, a pointer to a named number)
	tAnys  = reflect.TypeOf([]interface{}(nil))
	tStrs  = reflect.TypeOf([]string(nil))
	tDoc   = reflect.TypeOf(map[string]interface{}(nil))
	tFunc0 = reflect.TypeOf((func() int)(nil))
	tPair  = reflect.TypeOf([2]N1{})
	tPN1   = reflect.TypeOf((*N1)(nil))
)

// dupA / dupB declare two different types that print alike ("c04.Dup"): types
// of the same name from two scopes (two packages called log, say).
func dupA() (reflect.Type, func(int) reflect.Value) {
	type Dup struct{ ID int }
	return reflect.TypeOf(Dup{}), func(id int) reflect.Value { return reflect.ValueOf(Dup{id}) }
}

func dupB() (reflect.Type, func(int) reflect.Value) {
	type Dup struct{ ID int }
	return reflect.TypeOf(Dup{}), func(id int) reflect.Value { return reflect.ValueOf(Dup{id}) }
}

var (
	tDupA, mkDupA = dupA()
	tDupB, mkDupB = dupB()
)

// universe lists the types by the short names used in cases.
var universe = map[string]reflect.Type{
	"S1": tS1, "S2": tS2, "S3": tS3, "*S1": tPS1, "*S2": tPS2, "*S3": tPS3,
	"N1": tN1, "N2": tN2, "chan": tChan, "<-chan": tRecv, "I1": tI1, "I2": tI2, "I3": tI3, "I4": tI4,
	"I0": tI0, "L1": tL1, "M1": tM1, "Fn": tFn, "DupA": tDupA, "DupB": tDupB,
	"[]any": tAnys, "[]string": tStrs, "map[string]any": tDoc, "func()int": tFunc0, "[2]N1": tPair, "*N1": tPN1,
}

var typeNames = []string{"S1", "S2", "S3", "*S1", "*S2", "*S3", "N1", "N2", "chan", "<-chan", "I1", "I2", "I3", "I4", "I0", "L1", "M1", "Fn", "DupA", "DupB", "[]any", "[]string", "map[string]any", "func()int", "[2]N1", "*N1"}

// concrete lists the types a value can be made of.
var concreteNames = []string{"S1", "S2", "S3", "*S1", "*S2", "*S3", "N1", "N2", "chan", "L1", "M1", "Fn", "DupA", "DupB", "[]any", "[]string", "map[string]any", "func()int", "[2]N1", "*N1"}

// nillable says whether the concrete type has a typed nil, which is a value
// like any other for the injector.
func nillable(name string) bool {
	switch universe[name].Kind() {
	case reflect.Ptr, reflect.Chan, reflect.Slice, reflect.Map, reflect.Func:
		return true
	}
	return false
}

// mkValueNil is mkValue, or the typed nil of the type.
func mkValueNil(name string, id int, isNil bool) reflect.Value {
	if isNil && nillable(name) {
		return reflect.Zero(universe[name])
	}
	return mkValue(name, id)
}

// mkValue makes a fresh value of a concrete type carrying the identity id.
func mkValue(name string, id int) reflect.Value {
	switch name {
	case "S1":
		return reflect.ValueOf(S1{id})
	case "S2":
		return reflect.ValueOf(S2{id})
	case "S3":
		return reflect.ValueOf(S3{id})
	case "*S1":
		return reflect.ValueOf(&S1{id})
	case "*S2":
		return reflect.ValueOf(&S2{id})
	case "*S3":
		return reflect.ValueOf(&S3{id})
	case "N1":
		return reflect.ValueOf(N1(id))
	case "N2":
		return reflect.ValueOf(N2("n2-" + itoa(id)))
	case "chan":
		return reflect.ValueOf(make(chan int, id%3+1))
	case "L1":
		return reflect.ValueOf(L1{id})
	case "M1":
		return reflect.ValueOf(M1{"id": id})
	case "Fn":
		return reflect.ValueOf(Fn(func() int { return id }))
	case "[]any":
		// its elements are values of other types of the universe
		return reflect.ValueOf([]interface{}{N1(1000 + id), &S1{1000 + id}, "row", N2("in-a-row")})
	case "[]string":
		return reflect.ValueOf([]string{"s-" + itoa(id)})
	case "map[string]any":
		return reflect.ValueOf(map[string]interface{}{"id": id, "n1": N1(1000 + id)})
	case "func()int":
		return reflect.ValueOf(func() int { return id })
	case "[2]N1":
		return reflect.ValueOf([2]N1{N1(id), N1(-id)})
	case "*N1":
		n := N1(id)
		return reflect.ValueOf(&n)
	case "DupA":
		return mkDupA(id)
	case "DupB":
		return mkDupB(id)
	}
	panic("harness: mkValue " + name)
}

func itoa(i int) string {
	if i == 0 {
		return "0"
	}
	neg := i < 0
	if neg {
		i = -i
	}
	var b []byte
	for i > 0 {
		b = append([]byte{byte('0' + i%10)}, b...)
		i /= 10
	}
	if neg {
		b = append([]byte{'-'}, b...)
	}
	return string(b)
}

// same reports whether two values are the same injected value: pointer,
// channel, map and slice identity, the carried id for functions, == for the rest.
func same(a, b reflect.Value) bool {
	if !a.IsValid() || !b.IsValid() {
		return a.IsValid() == b.IsValid()
	}
	for a.Kind() == reflect.Interface && !a.IsNil() {
		a = a.Elem()
	}
	for b.Kind() == reflect.Interface && !b.IsNil() {
		b = b.Elem()
	}
	if a.Type() != b.Type() {
		// a receive-only view of a channel is the same channel
		if a.Kind() == reflect.Chan && b.Kind() == reflect.Chan {
			return a.Pointer() == b.Pointer()
		}
		return false
	}
	switch a.Kind() {
	case reflect.Ptr, reflect.Chan, reflect.Map, reflect.Slice, reflect.Func:
		if a.IsNil() || b.IsNil() {
			return a.IsNil() && b.IsNil()
		}
	}
	switch a.Kind() {
	case reflect.Ptr, reflect.Chan, reflect.Map:
		return a.Pointer() == b.Pointer()
	case reflect.Slice:
		return a.Pointer() == b.Pointer() && a.Len() == b.Len()
	case reflect.Func:
		// every function value is its own closure carrying its id
		return a.Call(nil)[0].Int() == b.Call(nil)[0].Int()
	}
	return a.Interface() == b.Interface()
}

// ---- fast invokers with plain twins ------------------------------------------------

type F0 func() int
type F1 func(*S1) (int, string)
type F2 func(I1, *S2) string
type F3 func(I2, I1, N1) int
type F4 func(S3, I3, chan int)
type F5 func(N2, *S3, I1, I3) (string, int)

func rv(vs ...interface{}) []reflect.Value {
	out := make([]reflect.Value, len(vs))
	for i, v := range vs {
		out[i] = reflect.ValueOf(v)
	}
	return out
}

func (f F0) Invoke(a []interface{}) ([]reflect.Value, error) { return rv(f()), nil }
func (f F1) Invoke(a []interface{}) ([]reflect.Value, error) {
	x, y := f(a[0].(*S1))
	return rv(x, y), nil
}
func (f F2) Invoke(a []interface{}) ([]reflect.Value, error) {
	return rv(f(a[0].(I1), a[1].(*S2))), nil
}
func (f F3) Invoke(a []interface{}) ([]reflect.Value, error) {
	return rv(f(a[0].(I2), a[1].(I1), a[2].(N1))), nil
}
func (f F4) Invoke(a []interface{}) ([]reflect.Value, error) {
	f(a[0].(S3), a[1].(I3), a[2].(chan int))
	return nil, nil
}
func (f F5) Invoke(a []interface{}) ([]reflect.Value, error) {
	x, y := f(a[0].(N2), a[1].(*S3), a[2].(I1), a[3].(I3))
	return rv(x, y), nil
}

// fastSigs are the parameter lists of F0..F5 by name.
var fastSigs = [][]string{{}, {"*S1"}, {"I1", "*S2"}, {"I2", "I1", "N1"}, {"S3", "I3", "chan"}, {"N2", "*S3", "I1", "I3"}}
