package c04

import (
	"fmt"
	"io"
	"net/http"
	"reflect"
	"strings"
	"testing"

	"github.com/charmbracelet/log"
	"pgregory.net/rapid"

	"github.com/flamego/flamego"
	"github.com/flamego/flamego/inject"
	"github.com/flamego/flamego/verifharness/internal/evid"
	"github.com/flamego/flamego/verifharness/internal/rt"
)

// FH is one handler of the framework-level check.
type FH struct {
	Kind   string   `json:"kind"`            // ctx | http | handlerfunc | refl | typed
	In     []string `json:"in,omitempty"`    // typed: parameters from the universe
	MapReq []string `json:"map,omitempty"`   // concrete types mapped at request scope by this handler (ctx/refl/typed kinds)
	Remap  string   `json:"remap,omitempty"` // context | writer | writer-chained | request: re-register that service for the rest of the request
}

type FCase struct {
	Outer    []string `json:"outer"` // concrete types mapped in an outer parent of the Flame
	App      []string `json:"app"`   // concrete types mapped on the Flame
	Handlers []FH     `json:"handlers"`
	Requests int      `json:"requests"`
	// Wrapper: a HandlerWrapper (the identity) is configured; it sees every
	// handler that is not one of the built-in fast shapes.
	Wrapper bool `json:"handler_wrapper,omitempty"`
}

type ctxWrap struct{ flamego.Context }
type rwWrap struct{ http.ResponseWriter }

var tContext = reflect.TypeOf((*flamego.Context)(nil)).Elem()

// fw is the live model of one framework-level case: the handlers check what
// they receive against it and advance it.
type fw struct {
	mOuter, mApp, mReq *mscope
	ctx                flamego.Context
	w                  http.ResponseWriter
	r                  *http.Request
	req                *http.Request // the request handed to ServeHTTP
	ran                []int
	bad                []string
	gotResults         []string // results as handed to the ReturnHandler
	wantResults        []string // results as the handlers returned them
	id                 int
	classes            map[string]bool
}

func (s *fw) fail(format string, args ...interface{}) {
	s.bad = append(s.bad, fmt.Sprintf(format, args...))
}

func (s *fw) check(k int, kind string, ctx flamego.Context, w http.ResponseWriter, r *http.Request) {
	s.ran = append(s.ran, k)
	if ctx != nil && ctx != s.ctx {
		s.fail("handler %d (%s) received Context %T@%p, the nearest registration is %T@%p", k, kind, ctx, ctx, s.ctx, s.ctx)
	}
	if w != nil && w != s.w {
		s.fail("handler %d (%s) received ResponseWriter %T@%p, the nearest registration is %T@%p", k, kind, w, w, s.w, s.w)
	}
	if r != nil && r != s.r {
		s.fail("handler %d (%s) received *http.Request %p, the nearest registration is %p", k, kind, r, s.r)
	}
}

func (s *fw) after(ctx flamego.Context, h FH) {
	for _, tn := range h.MapReq {
		v := mkValue(tn, s.id)
		s.id++
		ctx.Map(v.Interface())
		s.mReq.set(universe[tn], v)
		s.classes["request-scope-map"] = true
	}
	switch h.Remap {
	case "context":
		w := &ctxWrap{ctx}
		ctx.MapTo(w, (*flamego.Context)(nil))
		s.ctx = w
		s.classes["remap-context"] = true
	case "writer":
		w := &rwWrap{s.w}
		ctx.MapTo(w, (*http.ResponseWriter)(nil))
		s.w = w
		s.classes["remap-writer"] = true
	case "writer-chained":
		// the same re-registration reached through the TypeMapper a Map call returns
		w := &rwWrap{s.w}
		v := mkValue("N2", s.id)
		s.id++
		ctx.Map(v.Interface()).MapTo(w, (*http.ResponseWriter)(nil))
		s.mReq.set(universe["N2"], v)
		s.w = w
		s.classes["remap-writer"] = true
	case "request":
		r2 := s.r.Clone(s.r.Context())
		ctx.Map(r2)
		s.r = r2
		s.classes["remap-request"] = true
	}
}

func checkFramework(c FCase) (out evid.Outcome) {
	f := flamego.NewWithLogger(io.Discard)
	if c.Wrapper {
		f.HandlerWrapper(func(h flamego.Handler) flamego.Handler { return h })
	}
	outer := inject.New()
	f.SetParent(outer)
	s := &fw{mOuter: &mscope{}, mApp: &mscope{}, id: 1, classes: map[string]bool{}}
	for _, tn := range c.Outer {
		v := mkValue(tn, s.id)
		s.id++
		outer.Map(v.Interface())
		s.mOuter.set(universe[tn], v)
	}
	for _, tn := range c.App {
		v := mkValue(tn, s.id)
		s.id++
		f.Map(v.Interface())
		s.mApp.set(universe[tn], v)
	}

	// the first handler is a reflective probe: it tells what the request scope
	// holds initially; the request must be the very one handed to ServeHTTP
	probe := func(ctx flamego.Context, w http.ResponseWriter, r *http.Request, _ *log.Logger) {
		// (whether the request is the very *http.Request given to ServeHTTP, and
		// whether the writer is the one Context.ResponseWriter() returns, is not
		// C04's business: later handlers are compared with what this one got)
		s.ctx, s.w, s.r = ctx, w, r
	}
	hs := []flamego.Handler{probe}
	for k, h := range c.Handlers {
		k, h := k, h
		switch h.Kind {
		case "ctx": // auto-wrapped into ContextInvoker
			hs = append(hs, func(ctx flamego.Context) {
				s.check(k, h.Kind, ctx, nil, nil)
				s.after(ctx, h)
			})
		case "http": // auto-wrapped
			hs = append(hs, func(w http.ResponseWriter, r *http.Request) { s.check(k, h.Kind, nil, w, r) })
		case "handlerfunc": // auto-wrapped
			hs = append(hs, http.HandlerFunc(func(w http.ResponseWriter, r *http.Request) { s.check(k, h.Kind, nil, w, r) }))
		case "refl": // not wrapped: reflective invocation
			hs = append(hs, func(ctx flamego.Context, w http.ResponseWriter, r *http.Request, _ *log.Logger) {
				s.check(k, h.Kind, ctx, w, r)
				s.after(ctx, h)
			})
		case "ctxerr", "ctxerr-named":
			// a handler with a result: func(Context) error as it is (a shape a
			// framework may wrap on its own) and behind a named func type (always
			// invoked reflectively); what comes back goes to the ReturnHandler, and
			// must be the same in both cases: one valid value of type error
			var e error
			if k%2 == 1 {
				e = fmt.Errorf("E%d", k)
			}
			body := func(ctx flamego.Context) error {
				s.check(k, "ctx", ctx, nil, nil)
				if d := describeResults([]reflect.Value{reflect.ValueOf(&e).Elem()}); d != "()" {
					s.wantResults = append(s.wantResults, d)
				}
				return e
			}
			if h.Kind == "ctxerr" {
				hs = append(hs, body)
			} else {
				hs = append(hs, namedCtxErr(body))
			}
		case "teapot", "teapot-named":
			// func() (int, string): the one built-in wrapped shape with results,
			// as it is and behind a named func type
			body := func() (int, string) {
				s.ran = append(s.ran, k)
				s.wantResults = append(s.wantResults, describeResults([]reflect.Value{reflect.ValueOf(1000 + k), reflect.ValueOf(fmt.Sprintf("T%d", k))}))
				return 1000 + k, fmt.Sprintf("T%d", k)
			}
			if h.Kind == "teapot" {
				hs = append(hs, body)
			} else {
				hs = append(hs, namedTeapot(body))
			}
		case "typed":
			inT := []reflect.Type{tContext}
			for _, tn := range h.In {
				inT = append(inT, universe[tn])
			}
			fn := reflect.MakeFunc(reflect.FuncOf(inT, nil, false), func(args []reflect.Value) []reflect.Value {
				ctx := args[0].Interface().(flamego.Context)
				s.check(k, h.Kind, ctx, nil, nil)
				for i, tn := range h.In {
					legal, via := resolve([]*mscope{s.mOuter, s.mApp, s.mReq}, 2, universe[tn])
					if via == "implementor" {
						s.classes["via-implementor"] = true
					}
					if l2, _ := resolve([]*mscope{s.mReq}, 0, universe[tn]); l2 == nil {
						s.classes["via-parent"] = true
					}
					if !legalArg(args[1+i], legal) {
						s.fail("handler %d parameter %d (%s) is %#v, legal by request > application > outer resolution: %s", k, i, tn, args[1+i].Interface(), show(legal))
					}
				}
				s.after(ctx, h)
				return nil
			})
			hs = append(hs, fn.Interface())
		}
	}
	// results are collected by a ReturnHandler of our own (which writes nothing,
	// so the chain goes on)
	f.Map(flamego.ReturnHandler(func(_ flamego.Context, vals []reflect.Value) {
		if d := describeResults(vals); d != "()" {
			s.gotResults = append(s.gotResults, d)
		}
	}))
	f.Get("/x", hs...)

	for reqN := 0; reqN < c.Requests; reqN++ {
		out.Sub++
		s.mReq = &mscope{}
		s.ran, s.bad = nil, nil
		s.gotResults, s.wantResults = nil, nil
		s.ctx, s.w, s.r = nil, nil, nil
		s.req = rt.NewRequest("GET", "/x", nil)
		var escaped interface{}
		func() {
			defer func() { escaped = recover() }()
			f.ServeHTTP(rt.NewSpy(), s.req)
		}()
		desc := fmt.Sprintf("request %d of %s", reqN, js(c))
		if len(s.bad) > 0 {
			return ffail(out, s.classes, "framework-value", "%s; %s", s.bad[0], desc)
		}
		if fmt.Sprint(s.gotResults) != fmt.Sprint(s.wantResults) {
			return ffail(out, s.classes, "framework-results", "results handed to the ReturnHandler %v, the handlers returned %v; %s", s.gotResults, s.wantResults, desc)
		}
		// static expectation: which handlers run, and where invocation must fail
		avail := map[reflect.Type]bool{}
		for _, tn := range c.Outer {
			avail[universe[tn]] = true
		}
		for _, tn := range c.App {
			avail[universe[tn]] = true
		}
		var wantRan []int
		missing := ""
		for k, h := range c.Handlers {
			if h.Kind == "typed" {
				for _, tn := range h.In {
					t := universe[tn]
					ok := avail[t]
					if !ok && t.Kind() == reflect.Interface {
						for kt := range avail {
							if kt.Implements(t) {
								ok = true
							}
						}
					}
					if !ok {
						missing = addMissing(missing, t.String())
					}
				}
				if missing != "" {
					break
				}
			}
			wantRan = append(wantRan, k)
			for _, tn := range h.MapReq {
				avail[universe[tn]] = true
			}
			if h.Remap == "writer-chained" {
				avail[universe["N2"]] = true // mapped on the way (see after)
			}
		}
		if fmt.Sprint(s.ran) != fmt.Sprint(wantRan) {
			return ffail(out, s.classes, "framework-ran", "handlers %v ran, want %v (unresolvable type: %q); escaped panic: %v; %s", s.ran, wantRan, missing, escaped, desc)
		}
		if missing != "" {
			s.classes["unresolvable"] = true
			if escaped == nil {
				return ffail(out, s.classes, "framework-no-panic", "a handler needs %s which nobody registered, but ServeHTTP did not panic; %s", showMissing(missing), desc)
			}
			// the message may quote the handler's own type, which lists every
			// parameter type: the unresolvable type has to be named outside of it
			// (a missing type that is itself a function type is looked for with only
			// the bracketed quotation removed)
			msg := stripQuotedSignatures(fmt.Sprint(escaped), false)
			if !namesOne(msg, missing) && !(strings.Contains(missing, "func(") && namesOne(stripQuotedSignatures(fmt.Sprint(escaped), true), missing)) {
				return ffail(out, s.classes, "framework-panic-text", "panic %q names none of the unresolvable types %s (outside the handler's own signature); %s", escaped, showMissing(missing), desc)
			}
		} else if escaped != nil {
			return ffail(out, s.classes, "framework-panic", "ServeHTTP panicked although every parameter can be resolved: %v; %s", escaped, desc)
		}
		if reqN > 0 {
			s.classes["second-request"] = true
		}
	}
	for k := range s.classes {
		out.Classes = append(out.Classes, "fw:"+k)
	}
	cl := s.classes
	out.NonTrivial = cl["via-implementor"] || cl["via-parent"] || cl["unresolvable"] || cl["remap-context"] || cl["remap-writer"] || cl["remap-request"] || cl["request-scope-map"]
	return out
}

func ffail(out evid.Outcome, classes map[string]bool, sig, format string, args ...interface{}) evid.Outcome {
	o := evid.Fail(sig, format, args...)
	for k := range classes {
		o.Classes = append(o.Classes, "fw:"+k)
	}
	o.NonTrivial = true
	o.Sub = out.Sub
	return o
}

var fwTypeNames = func() []string {
	var out []string
	for _, n := range typeNames {
		if n != "I0" {
			out = append(out, n)
		}
	}
	return out
}()

func genFCase(t *rapid.T) FCase {
	var c FCase
	pick := func(label string, max int) []string {
		var out []string
		for i, n := 0, rapid.IntRange(0, max).Draw(t, label); i < n; i++ {
			out = append(out, concreteNames[rapid.IntRange(0, len(concreteNames)-1).Draw(t, label+"t")])
		}
		return out
	}
	c.Outer = pick("outer", 3)
	c.App = pick("app", 3)
	have := append(append([]string{}, c.Outer...), c.App...)
	kinds := []string{"ctx", "http", "handlerfunc", "refl", "typed", "typed", "ctx", "ctxerr", "ctxerr-named", "teapot", "teapot-named"}
	for i, n := 0, rapid.IntRange(1, 6).Draw(t, "nh"); i < n; i++ {
		h := FH{Kind: kinds[rapid.IntRange(0, len(kinds)-1).Draw(t, "kind")]}
		if h.Kind == "typed" {
			for j, m := 0, rapid.IntRange(0, 3).Draw(t, "nin"); j < m; j++ {
				// the empty interface is left to the injector-level check: the
				// framework's own services in the request scope satisfy it too
				tn := fwTypeNames[rapid.IntRange(0, len(fwTypeNames)-1).Draw(t, "in")]
				if len(have) > 0 && rapid.IntRange(0, 9).Draw(t, "fromhave") < 7 {
					// mostly something that can be resolved: a type registered in some
					// scope by now, or an interface one of them implements (so that
					// request scope, application scope and the outer parent compete)
					tn = have[rapid.IntRange(0, len(have)-1).Draw(t, "hv")]
					if ifs := ifacesOf(tn); len(ifs) > 0 && rapid.Bool().Draw(t, "viaiface") {
						tn = ifs[rapid.IntRange(0, len(ifs)-1).Draw(t, "hi")]
					}
					if tn == "I0" {
						tn = have[0]
					}
				}
				h.In = append(h.In, tn)
			}
		}
		if h.Kind == "ctx" || h.Kind == "refl" || h.Kind == "typed" {
			h.MapReq = pick("mapreq", 2)
			if len(have) > 0 && rapid.IntRange(0, 3).Draw(t, "shadow") == 0 {
				// a request-scoped value of a type the application (or the outer
				// parent) has too: the nearest one must win from here on
				h.MapReq = append(h.MapReq, have[rapid.IntRange(0, len(have)-1).Draw(t, "shadowt")])
			}
			have = append(have, h.MapReq...)
			h.Remap = []string{"", "", "", "context", "writer", "request", "writer-chained"}[rapid.IntRange(0, 6).Draw(t, "remap")]
		}
		c.Handlers = append(c.Handlers, h)
	}
	c.Requests = rapid.IntRange(1, 2).Draw(t, "nreq")
	c.Wrapper = rapid.IntRange(0, 3).Draw(t, "wrapper") == 0
	return c
}

func TestFramework(t *testing.T) {
	evid.Rapid(t, "framework", 3000, 100000, func(t *rapid.T) {
		c := genFCase(t)
		evid.Run(t, "framework", c, func() evid.Outcome { return checkFramework(c) })
	})
}

// stripQuotedSignatures removes what a message quotes about the handler itself:
// bracketed groups ("[pkg.name:func(...)]", nested brackets of slice types
// included) and func(...) type expressions. The parameter types listed there
// name every parameter, resolvable or not.
func stripQuotedSignatures(msg string, keepFuncTypes bool) string {
	// a bracketed group is dropped when it quotes a function ("[pkg.name:func(...)]");
	// the brackets of a type's own spelling ([]string, [2]T, map[string]T) stay
	var b strings.Builder
	for i := 0; i < len(msg); i++ {
		if msg[i] != '[' {
			b.WriteByte(msg[i])
			continue
		}
		depth, j := 1, i+1
		for j < len(msg) && depth > 0 {
			switch msg[j] {
			case '[':
				depth++
			case ']':
				depth--
			}
			j++
		}
		if group := msg[i:j]; depth == 0 && strings.Contains(group, "func(") {
			i = j - 1
			continue
		}
		b.WriteByte(msg[i])
	}
	return stripBareSignatures(b.String(), keepFuncTypes)
}

// stripBareSignatures replaces function signatures quoted without brackets.
func stripBareSignatures(out string, keep bool) string {
	if keep {
		return out
	}
	for {
		i := strings.Index(out, "func(")
		if i < 0 {
			return out
		}
		j, n := i+5, 1
		for j < len(out) && n > 0 {
			switch out[j] {
			case '(':
				n++
			case ')':
				n--
			}
			j++
		}
		out = out[:i] + "<func>" + out[j:]
	}
}

type namedCtxErr func(flamego.Context) error
type namedTeapot func() (int, string)

// describeResults renders what a ReturnHandler can observe of the results: the
// dynamic values. A nil result (a nil error) and no result at all are the same
// thing to it, and the static type a value arrives under is not compared.
func describeResults(vals []reflect.Value) string {
	var parts []string
	for _, v := range vals {
		switch {
		case !v.IsValid():
			parts = append(parts, "INVALID")
		case (v.Kind() == reflect.Interface || v.Kind() == reflect.Ptr) && v.IsNil():
		default:
			parts = append(parts, fmt.Sprintf("%T:%v", v.Interface(), v.Interface()))
		}
	}
	return "(" + strings.Join(parts, ", ") + ")"
}
