// Package c04 decides property C04: dependency injection resolves every
// parameter by type, nearest scope first, exact before implementor before
// parent; later registrations replace earlier ones; unresolvable parameters
// give an error naming the type and the body does not run; results come back
// unchanged; fast invokers (incl. the built-in wrapping) see the same values.
package c04

import (
	"encoding/json"
	"fmt"
	"reflect"
	"sort"
	"strings"
	"testing"

	"pgregory.net/rapid"

	"github.com/flamego/flamego/inject"
	"github.com/flamego/flamego/verifharness/internal/evid"
)

const rule = "injector level: case = 1..3 nested injectors and a history of 2..16 operations over {Map, MapTo, Set (re-registration included; values incl. typed nils), Invoke of a reflect.MakeFunc-built function with 0..4 parameters and 0..2 results over a 26-type universe (structs, pointers, named basics, channels, a named slice, map and func type whose values cannot be compared with ==, unnamed composite types - []interface{} whose elements are values of other types of the universe, []string, map[string]interface{}, func() int, [2]N1, *N1 -, two distinct struct types that print alike, four interfaces - one of them sealed by an unexported method - and the empty interface, with the implements relation of the language); half of the resolutions with several parameters are provided for first, Invoke of one of six fast-invoker types and of its plain twin, Apply to a reflect.StructOf-built struct with tagged (the inject key alone, or between a json and an xml key) and untagged fields, behind 1..3 pointers, optionally preceded by Apply of the struct value itself}; registrations and invocations are interleaved. " +
	"Oracle: an own scope-chain resolver (exact in scope, else the set of values registered in that scope under keys implementing the interface - any member is legal -, else parent); unresolvable: the error names the type and the body ran 0 times; resolvable: the body ran once with legal arguments (pointer/channel identity, == otherwise) and the results come back DeepEqual; fast twin == plain twin. " +
	"framework level (second check): request scope before application scope before an outer parent, request-scoped values visible to later handlers of that request only, re-registration of Context / http.ResponseWriter / *http.Request during a request seen identically by reflective handlers and by the built-in fast wrappers, unresolvable parameter -> panic naming the type and no later handler runs; results of func(Context) error and func() (int, string) handlers (as they are and behind named func types) reach the ReturnHandler by value. " +
	"non-trivial = a case with a parameter resolved through an implementor or a parent scope, or a re-registration followed by a resolution, or an unresolvable parameter; distinct by case text"

var assumptions = []string{
	"generators respect the documented preconditions: no untyped nil values (typed nil pointers, channels, slices, maps and funcs are values like any other), MapTo only with implementing values, Set only with assignable values",
	"when several registrations of one scope implement an interface, any of them is a legal resolution (map iteration order is not part of the contract)",
}

func TestMain(m *testing.M) { evid.Main(m, "C04", rule, assumptions) }

// Op is one operation of a history.
type Op struct {
	K     string   `json:"op"`                  // map | mapto | set | invoke | fast | apply
	Scope int      `json:"scope"`               // injector index (0 = outermost)
	T     string   `json:"t,omitempty"`         // map/set: concrete type of the value; mapto: value type
	As    string   `json:"as,omitempty"`        // mapto: interface; set: key type
	In    []string `json:"in,omitempty"`        // invoke: parameter types; apply: field types
	Tag   []bool   `json:"tag,omitempty"`       // apply: field tagged?
	Out   int      `json:"out,omitempty"`       // invoke: number of results
	Fast  int      `json:"fast,omitempty"`      // fast: which of F0..F5
	Nil   bool     `json:"nil,omitempty"`       // map/mapto/set: the value is the typed nil of T
	Depth int      `json:"ptr_depth,omitempty"` // apply: the struct is handed over behind 1+Depth pointers
}

type Case struct {
	Scopes int  `json:"scopes"`
	Ops    []Op `json:"ops"`
}

// ---- model ------------------------------------------------------------------------------

type entry struct {
	key reflect.Type
	val reflect.Value
}

type mscope struct{ entries []entry } // insertion order kept for determinism of messages only

func (s *mscope) set(k reflect.Type, v reflect.Value) {
	for i := range s.entries {
		if s.entries[i].key == k {
			s.entries[i].val = v
			return
		}
	}
	s.entries = append(s.entries, entry{k, v})
}

// resolve returns the set of legal values for t seen from scope i.
func resolve(scopes []*mscope, i int, t reflect.Type) (legal []reflect.Value, via string) {
	for ; i >= 0; i-- {
		s := scopes[i]
		for _, e := range s.entries {
			if e.key == t {
				return []reflect.Value{e.val}, "exact"
			}
		}
		if t.Kind() == reflect.Interface {
			for _, e := range s.entries {
				if e.key.Implements(t) {
					legal = append(legal, e.val)
				}
			}
			if len(legal) > 0 {
				return legal, "implementor"
			}
		}
		via = "parent"
	}
	return nil, "unresolvable"
}

func implementsIface(val string, iface reflect.Type) bool { return universe[val].Implements(iface) }

// ---- checkCase -----------------------------------------------------------------------------

func checkCase(c Case) (out evid.Outcome) {
	injs := make([]inject.Injector, c.Scopes)
	scopes := make([]*mscope, c.Scopes)
	for i := range injs {
		injs[i] = inject.New()
		scopes[i] = &mscope{}
		if i > 0 {
			injs[i].SetParent(injs[i-1])
		}
	}
	nextID := 1
	reregistered := false
	classes := map[string]bool{}
	for step, op := range c.Ops {
		desc := fmt.Sprintf("step %d %s of %s", step, js(op), js(c))
		inj, ms := injs[op.Scope], scopes[op.Scope]
		switch op.K {
		case "map":
			v := mkValueNil(op.T, nextID, op.Nil)
			nextID++
			for _, e := range ms.entries {
				if e.key == universe[op.T] {
					reregistered = true
				}
			}
			inj.Map(v.Interface())
			ms.set(universe[op.T], v)
		case "mapto":
			v := mkValueNil(op.T, nextID, op.Nil)
			nextID++
			var ptr interface{}
			switch op.As {
			case "I1":
				ptr = (*I1)(nil)
			case "I2":
				ptr = (*I2)(nil)
			case "I3":
				ptr = (*I3)(nil)
			case "I4":
				ptr = (*I4)(nil)
			case "I0":
				ptr = (*I0)(nil)
			}
			for _, e := range ms.entries {
				if e.key == universe[op.As] {
					reregistered = true
				}
			}
			inj.MapTo(v.Interface(), ptr)
			ms.set(universe[op.As], v)
		case "set":
			v := mkValueNil(op.T, nextID, op.Nil)
			nextID++
			key := universe[op.As]
			sv := v
			if op.As == "<-chan" {
				sv = v.Convert(tRecv)
			}
			for _, e := range ms.entries {
				if e.key == key {
					reregistered = true
				}
			}
			inj.Set(key, sv)
			ms.set(key, sv)
		case "invoke", "fast":
			out.Sub++
			in := op.In
			if op.K == "fast" {
				in = fastSigs[op.Fast]
			}
			var legal [][]reflect.Value
			missing := ""
			for _, tn := range in {
				l, via := resolve(scopes, op.Scope, universe[tn])
				if via == "unresolvable" {
					missing = addMissing(missing, universe[tn].String())
					classes["unresolvable"] = true
				} else {
					if via == "implementor" {
						classes["via-implementor"] = true
					}
					if len(l) > 1 {
						classes["several-implementors"] = true
					}
				}
				legal = append(legal, l)
			}
			// was anything resolved through a parent scope?
			for _, tn := range in {
				if l, _ := resolve(scopes, op.Scope, universe[tn]); l != nil {
					if l2, _ := resolve(scopes[op.Scope:op.Scope+1], 0, universe[tn]); l2 == nil {
						classes["via-parent"] = true
					}
				}
			}
			if reregistered {
				classes["resolution-after-reregistration"] = true
			}
			if op.K == "invoke" {
				if o := checkInvoke(inj, in, op.Out, legal, missing, desc); o.Violation != "" {
					return fail(out, classes, o)
				}
			} else {
				if o := checkFast(inj, op.Fast, legal, missing, desc); o.Violation != "" {
					return fail(out, classes, o)
				}
			}
		case "apply":
			out.Sub++
			if o := checkApply(inj, scopes, op, desc, classes); o.Violation != "" {
				return fail(out, classes, o)
			}
		}
	}
	for k := range classes {
		out.Classes = append(out.Classes, k)
	}
	sort.Strings(out.Classes)
	out.NonTrivial = classes["via-implementor"] || classes["via-parent"] || classes["resolution-after-reregistration"] || classes["unresolvable"]
	return out
}

func fail(out evid.Outcome, classes map[string]bool, o evid.Outcome) evid.Outcome {
	for k := range classes {
		o.Classes = append(o.Classes, k)
	}
	o.NonTrivial = true
	o.Sub = out.Sub
	return o
}

func legalArg(got reflect.Value, legal []reflect.Value) bool {
	for _, l := range legal {
		if same(got, l) {
			return true
		}
	}
	return false
}

func show(vs []reflect.Value) string {
	var p []string
	for _, v := range vs {
		p = append(p, fmt.Sprintf("%v(%#v)", v.Type(), v.Interface()))
	}
	return "[" + strings.Join(p, ", ") + "]"
}

// checkInvoke builds a function with reflect.MakeFunc and invokes it.
func checkInvoke(inj inject.Injector, in []string, nout int, legal [][]reflect.Value, missing, desc string) evid.Outcome {
	var inT []reflect.Type
	for _, tn := range in {
		inT = append(inT, universe[tn])
	}
	outT := []reflect.Type{reflect.TypeOf(0), reflect.TypeOf("")}[:nout]
	calls := 0
	var got []reflect.Value
	results := []reflect.Value{reflect.ValueOf(4200 + len(in)), reflect.ValueOf("res-" + strings.Join(in, ","))}[:nout]
	fn := reflect.MakeFunc(reflect.FuncOf(inT, outT, false), func(args []reflect.Value) []reflect.Value {
		calls++
		got = args
		return results
	})
	vals, err := inj.Invoke(fn.Interface())
	return judge("Invoke", calls, got, vals, err, legal, missing, results, desc)
}

// Several parameters of one call may be unresolvable; which of them the error
// names is the implementation's choice (it depends on the order in which it
// looks at them). The list travels as one string, NUL-separated.
func addMissing(list, t string) string {
	for _, x := range strings.Split(list, "\x00") {
		if x == t {
			return list
		}
	}
	if list == "" {
		return t
	}
	return list + "\x00" + t
}

func showMissing(list string) string { return strings.ReplaceAll(list, "\x00", " / ") }

// namesOne reports whether the text names one of the types as a whole: "c04.S1"
// is not named by "*c04.S1", nor "chan int" by "<-chan int".
func namesOne(text, list string) bool {
	for _, t := range strings.Split(list, "\x00") {
		for from := 0; ; {
			i := strings.Index(text[from:], t)
			if i < 0 {
				break
			}
			i += from
			before, after := byte(' '), byte(' ')
			if i > 0 {
				before = text[i-1]
			}
			if j := i + len(t); j < len(text) {
				after = text[j]
			}
			idch := func(c byte) bool {
				return c == '_' || c >= '0' && c <= '9' || c >= 'a' && c <= 'z' || c >= 'A' && c <= 'Z'
			}
			if before != '*' && before != '-' && before != '.' && !idch(before) && !idch(after) {
				return true
			}
			from = i + 1
		}
	}
	return false
}

func judge(what string, calls int, got, vals []reflect.Value, err error, legal [][]reflect.Value, missing string, results []reflect.Value, desc string) evid.Outcome {
	if missing != "" {
		if err == nil {
			return evid.Fail("no-error", "%s succeeded although %s cannot be resolved; %s", what, showMissing(missing), desc)
		}
		if calls != 0 {
			return evid.Fail("body-ran", "%s reported %q but the body ran %d times; %s", what, err, calls, desc)
		}
		if !namesOne(err.Error(), missing) {
			return evid.Fail("error-text", "%s error %q names none of the unresolvable types %s; %s", what, err, showMissing(missing), desc)
		}
		return evid.Outcome{}
	}
	if err != nil {
		return evid.Fail("spurious-error", "%s failed with %q although every parameter can be resolved; %s", what, err, desc)
	}
	if calls != 1 {
		return evid.Fail("calls", "%s ran the body %d times; %s", what, calls, desc)
	}
	if len(got) != len(legal) {
		panic("the recorder saw another number of arguments than the function has parameters")
	}
	for i := range got {
		if !legalArg(got[i], legal[i]) {
			return evid.Fail("wrong-argument", "%s argument %d is %v(%#v), legal by nearest-scope resolution: %s; %s", what, i, got[i].Type(), got[i].Interface(), show(legal[i]), desc)
		}
	}
	if len(vals) != len(results) {
		return evid.Fail("results", "%s returned %d results, the body returned %d; %s", what, len(vals), len(results), desc)
	}
	for i := range vals {
		if !reflect.DeepEqual(vals[i].Interface(), results[i].Interface()) {
			return evid.Fail("results", "%s result %d is %#v, the body returned %#v; %s", what, i, vals[i].Interface(), results[i].Interface(), desc)
		}
	}
	return evid.Outcome{}
}

// checkFast invokes F<k> and its plain twin and compares both with the model.
func checkFast(inj inject.Injector, k int, legal [][]reflect.Value, missing, desc string) evid.Outcome {
	run := func(fast bool) (int, []reflect.Value, []reflect.Value, error, []reflect.Value) {
		calls := 0
		var got []reflect.Value
		rec := func(args ...interface{}) {
			calls++
			got = nil
			for _, a := range args {
				got = append(got, reflect.ValueOf(a))
			}
		}
		var f interface{}
		var results []reflect.Value
		switch k {
		case 0:
			p := func() int { rec(); return 7 }
			results = rv(7)
			f = p
			if fast {
				f = F0(p)
			}
		case 1:
			p := func(a *S1) (int, string) { rec(a); return 11, "one" }
			results = rv(11, "one")
			f = p
			if fast {
				f = F1(p)
			}
		case 2:
			p := func(a I1, b *S2) string { rec(a, b); return "two" }
			results = rv("two")
			f = p
			if fast {
				f = F2(p)
			}
		case 3:
			p := func(a I2, b I1, c N1) int { rec(a, b, c); return 33 }
			results = rv(33)
			f = p
			if fast {
				f = F3(p)
			}
		case 4:
			p := func(a S3, b I3, c chan int) { rec(a, b, c) }
			f = p
			if fast {
				f = F4(p)
			}
		case 5:
			p := func(a N2, b *S3, c I1, d I3) (string, int) { rec(a, b, c, d); return "five", 55 }
			results = rv("five", 55)
			f = p
			if fast {
				f = F5(p)
			}
		}
		vals, err := inj.Invoke(f)
		return calls, got, vals, err, results
	}
	pc, pg, pv, pe, pr := run(false)
	if o := judge("Invoke(plain twin)", pc, pg, pv, pe, legal, missing, pr, desc); o.Violation != "" {
		return o
	}
	fc, fg, fv, fe, fr := run(true)
	if o := judge("Invoke(fast invoker)", fc, fg, fv, fe, legal, missing, fr, desc); o.Violation != "" {
		return o
	}
	// (judge has held each twin against the same model: comparing them with each
	// other again could never fail)
	_, _ = pg, fg
	return evid.Outcome{}
}

// hidden2 has the unsettable tagged field in front of a settable one.
type hidden2 struct {
	private *S2 `inject:""`
	Public  *S1 `inject:""`
}

// embedding has its tagged fields embedded (an interface, a pointer) next to a
// named one: an embedded field is a field like any other.
type embedding struct {
	I1    `inject:""`
	*S2   `inject:""`
	Named *S3 `inject:""`
}

type hidden struct {
	Public  *S1 `inject:""`
	private *S2 `inject:""`
	Plain   *S3
}

func checkApply(inj inject.Injector, scopes []*mscope, op Op, desc string, classes map[string]bool) evid.Outcome {
	var fields []reflect.StructField
	for i, tn := range op.In {
		f := reflect.StructField{Name: fmt.Sprintf("F%d", i), Type: universe[tn]}
		if op.Tag[i] {
			f.Tag = `inject:""`
			if i%2 == 1 {
				// the inject key need not be the first one of the tag
				f.Tag = `json:"f,omitempty" inject:"" xml:"-"`
			}
		}
		fields = append(fields, f)
	}
	target := reflect.New(reflect.StructOf(fields))
	missing := ""
	var legal [][]reflect.Value
	for i, tn := range op.In {
		if !op.Tag[i] {
			legal = append(legal, nil)
			continue
		}
		l, via := resolve(scopes, op.Scope, universe[tn])
		if via == "unresolvable" {
			missing = addMissing(missing, universe[tn].String())
			classes["unresolvable"] = true
		}
		if via == "implementor" {
			classes["via-implementor"] = true
		}
		legal = append(legal, l)
	}
	if len(op.In)%2 == 1 {
		// the struct itself (not a pointer to it) first: nothing in it can be set,
		// which is not an error - and must not be remembered against the type
		// (an implementation that answers "Apply needs a pointer" is not excluded
		// by the statement either: only the Apply that follows is judged)
		if verr := inj.Apply(target.Elem().Interface()); verr != nil {
			classes["apply-by-value-refused"] = true
		} else {
			classes["apply-by-value-first"] = true
		}
	}
	// a struct that is applied a second time, or that the caller has filled in:
	// a tagged field gets the registered value whatever it held before
	if op.Depth == 0 && len(op.In)%3 == 2 {
		for i, tn := range op.In {
			if !op.Tag[i] || universe[tn].Kind() == reflect.Interface || tn == "<-chan" {
				continue
			}
			target.Elem().Field(i).Set(mkValue(tn, 7777))
		}
		classes["apply-to-a-filled-struct"] = true
	}
	// the struct may sit behind several pointers (a **T out of a generic
	// container, say): its fields are as settable as behind one
	handle := target
	for d := 0; d < op.Depth; d++ {
		pp := reflect.New(handle.Type())
		pp.Elem().Set(handle)
		handle = pp
	}
	if op.Depth > 0 {
		classes["apply-through-several-pointers"] = true
	}
	err := inj.Apply(handle.Interface())
	if missing != "" {
		if err == nil {
			return evid.Fail("apply-no-error", "Apply succeeded although %s cannot be resolved; %s", showMissing(missing), desc)
		}
		if !namesOne(err.Error(), missing) {
			return evid.Fail("apply-error-text", "Apply error %q names none of %s; %s", err, showMissing(missing), desc)
		}
		return evid.Outcome{}
	}
	if err != nil {
		return evid.Fail("apply-spurious-error", "Apply failed with %q; %s", err, desc)
	}
	for i := range op.In {
		fv := target.Elem().Field(i)
		if !op.Tag[i] {
			if !fv.IsZero() {
				return evid.Fail("apply-untagged", "Apply wrote the untagged field %d; %s", i, desc)
			}
			continue
		}
		if !legalArg(fv, legal[i]) {
			return evid.Fail("apply-wrong-value", "Apply put %#v into field %d (%s), legal: %s; %s", fv.Interface(), i, op.In[i], show(legal[i]), desc)
		}
	}
	// a struct with an unexported tagged field: it is not settable and must be skipped
	h := &hidden{}
	herr := inj.Apply(h)
	l1, v1 := resolve(scopes, op.Scope, tPS1)
	if v1 == "unresolvable" {
		if herr == nil {
			return evid.Fail("apply-hidden", "Apply(hidden) succeeded without a *S1; %s", desc)
		}
	} else if herr != nil {
		// the unexported field is not settable: skipping it silently and
		// reporting it are both within the statement, which speaks of settable
		// fields only
		classes["apply-hidden-refused"] = true
	} else if !legalArg(reflect.ValueOf(h.Public), l1) || h.private != nil || h.Plain != nil {
		return evid.Fail("apply-hidden", "Apply(hidden): err=%v Public=%v private=%v Plain=%v; %s", herr, h.Public, h.private, h.Plain, desc)
	}
	// embedded tagged fields
	emb := &embedding{}
	eerr := inj.Apply(emb)
	lI1, vI1 := resolve(scopes, op.Scope, tI1)
	lPS2, vPS2 := resolve(scopes, op.Scope, tPS2)
	lPS3, vPS3 := resolve(scopes, op.Scope, tPS3)
	if vI1 == "unresolvable" || vPS2 == "unresolvable" || vPS3 == "unresolvable" {
		if eerr == nil {
			return evid.Fail("apply-embedded", "Apply of a struct with embedded tagged fields (I1, *S2) and a named one (*S3) succeeded although not all of them can be resolved (I1: %s, *S2: %s, *S3: %s); %s", vI1, vPS2, vPS3, desc)
		}
	} else if eerr != nil || !legalArg(reflect.ValueOf(&emb.I1).Elem(), lI1) || !legalArg(reflect.ValueOf(emb.S2), lPS2) || !legalArg(reflect.ValueOf(emb.Named), lPS3) {
		return evid.Fail("apply-embedded", "Apply of a struct with embedded tagged fields: err=%v I1=%v *S2=%v Named=%v, legal: %s / %s / %s; %s", eerr, emb.I1, emb.S2, emb.Named, show(lI1), show(lPS2), show(lPS3), desc)
	} else {
		classes["apply-embedded-fields"] = true
	}
	h2 := &hidden2{}
	herr2 := inj.Apply(h2)
	if v1 == "unresolvable" {
		if herr2 == nil {
			return evid.Fail("apply-hidden", "Apply(hidden2) succeeded without a *S1; %s", desc)
		}
	} else if herr2 != nil {
		classes["apply-hidden-refused"] = true
	} else if !legalArg(reflect.ValueOf(h2.Public), l1) || h2.private != nil {
		return evid.Fail("apply-hidden", "Apply(hidden2): err=%v Public=%v private=%v (an unexported tagged field in front: the settable one behind it must still be filled); %s", herr2, h2.Public, h2.private, desc)
	}
	return evid.Outcome{}
}

func js(v interface{}) string {
	b, _ := json.Marshal(v)
	return string(b)
}

// ---- generator ---------------------------------------------------------------------------

var ifaceNames = []string{"I1", "I2", "I3", "I4", "I0"}

// ifacesOf lists the interfaces of the universe a concrete type implements.
func ifacesOf(concrete string) []string {
	var out []string
	for _, in := range ifaceNames {
		if implementsIface(concrete, universe[in]) {
			out = append(out, in)
		}
	}
	return out
}

func genCase(t *rapid.T) Case {
	c := Case{Scopes: rapid.IntRange(1, 3).Draw(t, "scopes")}
	n := rapid.IntRange(2, 16).Draw(t, "nops")
	// registered[scope] = concrete types registered under their own type so far
	registered := map[int][]string{}
	for i := 0; i < n; i++ {
		op := Op{Scope: rapid.IntRange(0, c.Scopes-1).Draw(t, "scope")}
		// re-registration stories: register K, resolve an interface K implements,
		// re-register K through any of the three entry points, resolve again
		if len(registered) > 0 && rapid.IntRange(0, 3).Draw(t, "story") == 0 {
			var scopes []int
			for sc := range registered {
				scopes = append(scopes, sc)
			}
			sort.Ints(scopes)
			sc := scopes[rapid.IntRange(0, len(scopes)-1).Draw(t, "ssc")]
			k := registered[sc][rapid.IntRange(0, len(registered[sc])-1).Draw(t, "sk")]
			ifs := ifacesOf(k)
			resolveAt := rapid.IntRange(sc, c.Scopes-1).Draw(t, "rsc")
			use := func() Op {
				in := []string{k}
				if len(ifs) > 0 {
					in = []string{ifs[rapid.IntRange(0, len(ifs)-1).Draw(t, "si")]}
					if rapid.Bool().Draw(t, "both") {
						in = append(in, k)
					}
				}
				if rapid.IntRange(0, 3).Draw(t, "viaapply") == 0 {
					tags := make([]bool, len(in))
					for j := range tags {
						tags[j] = true
					}
					return Op{K: "apply", Scope: resolveAt, In: in, Tag: tags}
				}
				return Op{K: "invoke", Scope: resolveAt, In: in, Out: 1}
			}
			rereg := Op{Scope: sc, T: k}
			switch rapid.IntRange(0, 2).Draw(t, "how") {
			case 0:
				rereg.K = "map"
			case 1:
				rereg.K, rereg.As = "set", k
			default:
				if len(ifs) > 0 {
					rereg.K, rereg.As = "mapto", ifs[0]
				} else {
					rereg.K = "map"
				}
			}
			c.Ops = append(c.Ops, use(), rereg, use())
			continue
		}
		switch k := rapid.IntRange(0, 11).Draw(t, "opk"); {
		case k < 4:
			op.K = "map"
			op.T = concreteNames[rapid.IntRange(0, len(concreteNames)-1).Draw(t, "t")]
			registered[op.Scope] = append(registered[op.Scope], op.T)
		case k < 6:
			op.K = "mapto"
			op.As = ifaceNames[rapid.IntRange(0, len(ifaceNames)-1).Draw(t, "as")]
			var impl []string
			for _, cn := range concreteNames {
				if implementsIface(cn, universe[op.As]) {
					impl = append(impl, cn)
				}
			}
			op.T = impl[rapid.IntRange(0, len(impl)-1).Draw(t, "impl")]
		case k < 7:
			op.K = "set"
			if rapid.Bool().Draw(t, "recv") {
				op.T, op.As = "chan", "<-chan"
			} else {
				op.T = concreteNames[rapid.IntRange(0, len(concreteNames)-1).Draw(t, "t")]
				op.As = op.T
			}
		case k < 10:
			op.K = "invoke"
			for j, m := 0, rapid.IntRange(0, 4).Draw(t, "nin"); j < m; j++ {
				op.In = append(op.In, typeNames[rapid.IntRange(0, len(typeNames)-1).Draw(t, "in")])
			}
			op.Out = rapid.IntRange(0, 2).Draw(t, "nout")
		case k < 11:
			op.K = "fast"
			op.Fast = rapid.IntRange(0, 5).Draw(t, "fast")
		default:
			op.K = "apply"
			for j, m := 0, rapid.IntRange(1, 4).Draw(t, "nf"); j < m; j++ {
				op.In = append(op.In, typeNames[rapid.IntRange(0, len(typeNames)-1).Draw(t, "ft")])
				op.Tag = append(op.Tag, rapid.IntRange(0, 3).Draw(t, "tag") > 0)
			}
			if rapid.IntRange(0, 3).Draw(t, "deep") == 0 {
				op.Depth = rapid.IntRange(1, 2).Draw(t, "depth")
			}
		}
		if (op.K == "map" || op.K == "mapto" || op.K == "set") && nillable(op.T) {
			// a typed nil (an anonymous visitor's *User) is a value like any other
			op.Nil = rapid.IntRange(0, 5).Draw(t, "typednil") == 0
		}
		if need := needs(op); len(need) > 1 && rapid.Bool().Draw(t, "provide") {
			// a resolution with several parameters only succeeds when all of them
			// can be found: half of the time they are provided first, spread over
			// the scopes the resolution sees, so that long argument lists are
			// filled rather than refused
			for _, tn := range need {
				pre := Op{K: "map", Scope: rapid.IntRange(0, op.Scope).Draw(t, "psc"), T: tn}
				if tn == "<-chan" {
					pre.K, pre.T, pre.As = "set", "chan", "<-chan"
				} else if universe[tn].Kind() == reflect.Interface {
					var impl []string
					for _, cn := range concreteNames {
						if implementsIface(cn, universe[tn]) {
							impl = append(impl, cn)
						}
					}
					pre.T = impl[rapid.IntRange(0, len(impl)-1).Draw(t, "pimpl")]
					if rapid.Bool().Draw(t, "pmapto") {
						pre.K, pre.As = "mapto", tn
					}
				}
				if pre.K == "map" {
					registered[pre.Scope] = append(registered[pre.Scope], pre.T)
				}
				c.Ops = append(c.Ops, pre)
			}
		}
		c.Ops = append(c.Ops, op)
	}
	return c
}

// needs lists the types a resolving operation asks for.
func needs(op Op) []string {
	switch op.K {
	case "invoke":
		return op.In
	case "fast":
		return fastSigs[op.Fast]
	case "apply":
		var out []string
		for i, tn := range op.In {
			if op.Tag[i] {
				out = append(out, tn)
			}
		}
		return out
	}
	return nil
}

func TestInjector(t *testing.T) {
	evid.Rapid(t, "injector", 15000, 400000, func(t *rapid.T) {
		c := genCase(t)
		evid.Run(t, "injector", c, func() evid.Outcome { return checkCase(c) })
	})
}

func TestReplay(t *testing.T) {
	evid.Replay(t, map[string]evid.ReplayFn{
		"injector": func(raw json.RawMessage) evid.Outcome {
			var c Case
			if err := json.Unmarshal(raw, &c); err != nil {
				panic(err)
			}
			return checkCase(c)
		},
		"framework": func(raw json.RawMessage) evid.Outcome {
			var c FCase
			if err := json.Unmarshal(raw, &c); err != nil {
				panic(err)
			}
			return checkFramework(c)
		},
	})
}
