// Package c03 decides property C03: handlers start strictly in chain order,
// at most once, never skipping one; Next() runs the remainder inside the call;
// after a handler returns the chain advances only if nothing was written and
// the request context is not cancelled.
package c03

import (
	gocontext "context"
	"encoding/json"
	"fmt"
	"io"
	"net/http"
	"net/http/httptest"
	"strings"
	"testing"
	"time"

	"pgregory.net/rapid"

	"github.com/flamego/flamego"
	"github.com/flamego/flamego/verifharness/internal/evid"
	"github.com/flamego/flamego/verifharness/internal/rt"
)

const rule = "case = a handler stack: 0..3 application middleware, 0..3 nested groups (some declared with the empty path) with 0..2 handlers each (two times in five the same stack of group paths is opened once more, before or after, with handlers and a route of its own), 1..3 route handlers and an optional final action; now and then 240..300 silent middleware in front of everything (a long chain); each handler is a straight-line program of 0..4 operations over {write a status, write body bytes (Write or io.Copy; the underlying writer with or without io.ReaderFrom), Next(), Next() under a recover, cancel the request context (directly, through a derived context installed on the request, or by a deadline that has passed), install a live derived context on the request, re-register http.ResponseWriter with a wrapping flamego writer, panic (rarely)} plus an optional return value (non-empty string, empty string, nil error, non-nil error); the request may arrive with a context that is cancelled already; the route is declared with Any or with Get under AutoHead; the request is served twice on the same instance, and optionally a third time after Handlers() was called with no arguments (compared with an instance that never had middleware). " +
	"Oracle: the trace of enter/next/back/exit events, final status and body must equal those of a cursor interpreter written from the statement (cursor = next handler not yet started); plus model-free invariants on the real trace: handlers are entered as 0,1,2,... without gap or repetition, and enter/exit events nest like calls. " +
	"non-trivial = a program with a Next() issued after a write or cancel, or >=2 Next() in one handler, or a write inside a handler reached through Next(), or a chain that reaches a nil action, or a panic crossing a recovering Next(); distinct by case text"

var assumptions = []string{
	"reading of the statement for an explicit Next(): it starts the next handler unless the request context is cancelled at that moment (then it starts nothing), also after a write - 'the remainder runs as far as it gets', and after that handler returns the chain does not advance on its own because something has been written; this is what the repository's own TestContext_Next / TestFlame_EarlyWrite / TestContext_RequestContextCancel show",
	"the middleware of an application is what Use / Handlers last made it: a request served after Handlers() was called with no arguments meets no middleware (the stack is looked at per request, or invalidated when it changes)",
	"what happens to the chain after a panic crossed run() and was recovered by an outer handler is not compared (the statement does not say); neither is what a Flame without Recovery does with a panic nobody recovers",
	"'the request context' is the context of the request as the chain sees it at that moment: a handler that installs another context on the request (c.Request().Request = r.WithContext(...)) changes it, a request that arrives already cancelled starts no handler, or its first handler and nothing behind it",
	"handlers are closures of the shapes func(Context) and func(Context) <result>, one in eight a value of type http.HandlerFunc (which can only write or panic); both the fast-invoker wrapping and the reflective path are exercised",
	"a panic that no handler recovers escapes ServeHTTP in the implementation and in the interpreter alike; only the trace up to it is compared",
}

func TestMain(m *testing.M) { evid.Main(m, "C03", rule, assumptions) }

// H is one handler program. Ops: "s<code>" write status, "b" write body, "b0" a Write of no bytes, "bc" "b" through io.Copy,
// "n" Next, "r" Next under recover, "c" cancel, "d" install a derived request
// context and cancel that, "t" install a request context whose deadline has
// passed, "l" install a live derived context, "f" install a fresh live context,
// "p" panic, "m" re-register http.ResponseWriter with a wrapping flamego.ResponseWriter.
// Ret: "" none, "str", "empty", "nilerr", "err".
type H struct {
	Ops []string `json:"ops"`
	Ret string   `json:"ret,omitempty"`
	// Shape "hf": the handler is a value of type http.HandlerFunc (which cannot
	// call Next and returns nothing; its program only writes or panics).
	Shape string `json:"shape,omitempty"`
}

type Case struct {
	Middleware []H   `json:"middleware"`
	Groups     [][]H `json:"groups"` // outermost first
	Route      []H   `json:"route"`
	Action     *H    `json:"action"` // nil = no action set
	// Method of the request (GET or HEAD; the route is registered for both).
	Method string `json:"method,omitempty"`
	// SiblingsBefore / SiblingsAfter register that many other routes (one own
	// handler each) in the same innermost group before / after the route under
	// test: their handlers must never show up in its chain.
	SiblingsBefore int `json:"siblings_before,omitempty"`
	SiblingsAfter  int `json:"siblings_after,omitempty"`
	// TwinGroups (with groups): the same stack of group paths is opened another
	// time - "before" or "after" the one under test - with one handler of its own
	// per group and a route of its own inside (an open and a guarded part of one
	// API): none of those handlers belongs to the chain of the route under test.
	TwinGroups string `json:"group_stack_opened_twice,omitempty"`
	// ReaderFrom: the writer handed to ServeHTTP also implements io.ReaderFrom,
	// as the one of net/http does.
	ReaderFrom bool `json:"reader_from,omitempty"`
	// EmptyGroupPath: bit d set = the group at depth d is declared with the
	// empty path (it only contributes its handlers).
	EmptyGroupPath int `json:"empty_group_path,omitempty"`
	// Wrapper: a HandlerWrapper (the identity) is configured on the router.
	Wrapper bool `json:"handler_wrapper,omitempty"`
	// AutoHeadGet: the route is declared with Get while AutoHead is on (GET and
	// HEAD requests then run the same chain) instead of with Any.
	AutoHeadGet bool `json:"autohead_get,omitempty"`
	// PreCancelled: the request arrives with a context that is cancelled already.
	PreCancelled bool `json:"arrives_cancelled,omitempty"`
	// ClearMiddleware: after the requests, Handlers() is called with no
	// arguments (the application has no middleware any more) and the request is
	// served once more: it must go like on an instance that never had any.
	ClearMiddleware bool `json:"handlers_cleared_afterwards,omitempty"`
	// Pad: that many silent handlers (they do nothing and return nothing) are the
	// application's first middleware, in front of those listed: a long chain.
	Pad int `json:"silent_middleware_in_front,omitempty"`
}

func (c Case) groupPath(d int) string {
	if c.EmptyGroupPath&(1<<d) != 0 {
		return ""
	}
	return fmt.Sprintf("/g%d", d)
}

// onlyReader hides WriterTo so that io.Copy goes for the writer's ReadFrom.
type onlyReader struct{ io.Reader }

// rfRecorder adds io.ReaderFrom to the recorder, behaving as net/http's
// response does: the status line goes out with the first byte.
type rfRecorder struct{ *httptest.ResponseRecorder }

func (r rfRecorder) ReadFrom(src io.Reader) (int64, error) {
	if r.Code == 0 {
		r.WriteHeader(200)
	}
	return io.Copy(struct{ io.Writer }{r.ResponseRecorder}, src)
}

func (c Case) flat() []H {
	var out []H
	out = append(out, c.Middleware...)
	for _, g := range c.Groups {
		out = append(out, g...)
	}
	out = append(out, c.Route...)
	return out
}

// ---- the reference: a cursor interpreter written from the statement ----------

type result struct {
	Trace   []string
	Status  int
	Body    string
	Escaped bool   // a panic escaped the whole chain
	Second  string // how a second, identical request differed from the first ("" = it did not)
	Cleared string // how the request after Handlers() differed from a fresh instance without middleware
}

type interp struct {
	hs        []H
	action    *H
	cursor    int
	written   bool
	cancelled bool
	detached  bool // the request carries a context unrelated to the one it arrived with
	res       result
}

type ctxKey struct{}

type chainPanic struct{ at int }

func (m *interp) ev(format string, args ...interface{}) {
	m.res.Trace = append(m.res.Trace, fmt.Sprintf(format, args...))
}

func (m *interp) write(status int, body string) {
	if !m.written {
		m.written = true
		m.res.Status = status
	}
	m.res.Body += body
}

func (m *interp) run() {
	for m.cursor <= len(m.hs) {
		if m.cancelled {
			return
		}
		i := m.cursor
		var h *H
		if i == len(m.hs) {
			h = m.action
		} else {
			h = &m.hs[i]
		}
		m.cursor++
		if h == nil {
			return
		}
		m.exec(i, h)
		if m.written {
			return
		}
	}
}

func (m *interp) exec(i int, h *H) {
	m.ev("enter %d", i)
	for _, op := range h.Ops {
		switch {
		case op[0] == 's':
			var code int
			fmt.Sscanf(op[1:], "%d", &code)
			m.write(code, "")
		case op == "b" || op == "bc":
			m.write(200, fmt.Sprintf("h%d;", i))
		case op == "b0":
			m.write(200, "") // a Write of no bytes commits the response like any other Write
		case op == "n":
			m.ev("next %d", i)
			m.run()
			m.ev("back %d", i)
		case op == "r":
			m.ev("next %d", i)
			func() {
				defer func() {
					if r := recover(); r != nil {
						if _, ok := r.(chainPanic); !ok {
							panic(r)
						}
						m.ev("recovered %d", i)
					}
				}()
				m.run()
			}()
			m.ev("back %d", i)
		case op == "c":
			// cancels the context the request arrived with: that is "the request
			// context" unless a handler has installed an unrelated one since
			if !m.detached {
				m.cancelled = true
			}
		case op == "d", op == "t":
			m.cancelled = true
		case op == "l":
			// a live derived context changes nothing
		case op == "f":
			m.cancelled, m.detached = false, true
		case op == "p":
			m.ev("panic %d", i)
			panic(chainPanic{i})
		}
	}
	// return values are rendered first
	switch h.Ret {
	case "str":
		m.write(200, fmt.Sprintf("ret%d;", i))
	case "err":
		m.write(500, fmt.Sprintf("err%d;", i))
	}
	m.ev("exit %d", i)
}

func reference(c Case) (res result) {
	m := &interp{hs: c.flat(), action: c.Action, cancelled: c.PreCancelled}
	defer func() {
		if c.Method == "HEAD" {
			res.Body = "" // HEAD forwards no body bytes; everything else is the same
		}
	}()
	defer func() {
		if r := recover(); r != nil {
			if _, ok := r.(chainPanic); !ok {
				panic(r)
			}
			m.res.Escaped = true
			res = m.res
		}
	}()
	m.run()
	return m.res
}

// ---- the real thing --------------------------------------------------------------

type harnessPanic struct{ at int }

func real(c Case) (res result) { return realFrom(c, 0) }

// realFrom builds the application with handler ids starting at base.
func realFrom(c Case, base int) (res result) {
	var trace []string
	ev := func(format string, args ...interface{}) { trace = append(trace, fmt.Sprintf(format, args...)) }
	var cancel gocontext.CancelFunc
	var later []func() // clean-up of live contexts, run when the request is over
	idx := base
	mk := func(h H) flamego.Handler {
		i := idx
		idx++
		body := func(ctx flamego.Context) {
			ev("enter %d", i)
			for _, op := range h.Ops {
				switch {
				case op[0] == 's':
					var code int
					fmt.Sscanf(op[1:], "%d", &code)
					ctx.ResponseWriter().WriteHeader(code)
				case op == "b":
					_, _ = ctx.ResponseWriter().Write([]byte(fmt.Sprintf("h%d;", i)))
				case op == "b0":
					_, _ = ctx.ResponseWriter().Write(nil)
				case op == "bc":
					_, _ = io.Copy(ctx.ResponseWriter(), onlyReader{strings.NewReader(fmt.Sprintf("h%d;", i))})
				case op == "n":
					ev("next %d", i)
					ctx.Next()
					ev("back %d", i)
				case op == "r":
					ev("next %d", i)
					func() {
						defer func() {
							if r := recover(); r != nil {
								if _, ok := r.(harnessPanic); !ok {
									panic(r)
								}
								ev("recovered %d", i)
							}
						}()
						ctx.Next()
					}()
					ev("back %d", i)
				case op == "c":
					cancel()
				case op == "d":
					// the handler installs a derived context on the request and
					// that one is cancelled: "the request context" is now cancelled
					derived, cancelDerived := gocontext.WithCancel(ctx.Request().Context())
					ctx.Request().Request = ctx.Request().WithContext(derived)
					cancelDerived()
				case op == "l":
					// a live derived context (a value, and a deadline far away) is
					// installed: the request context is not cancelled
					derived, stop := gocontext.WithTimeout(gocontext.WithValue(ctx.Request().Context(), ctxKey{}, i), time.Hour)
					later = append(later, stop)
					ctx.Request().Request = ctx.Request().WithContext(derived)
				case op == "f":
					// a fresh, live context replaces whatever was there (also a
					// cancelled one): the request context is not cancelled any more
					ctx.Request().Request = ctx.Request().WithContext(gocontext.Background())
				case op == "m":
					// the handler re-registers http.ResponseWriter: handlers that ask for
					// it by type get a wrapper (itself a flamego.ResponseWriter) around
					// the request's writer; "a response has been written" is still the
					// state of the request's response, whoever wrote it
					ctx.MapTo(flamego.NewResponseWriter(ctx.Request().Method, ctx.ResponseWriter()), (*http.ResponseWriter)(nil))
				case op == "t":
					// the request context the handler installs has a deadline that
					// has passed: it is done, just as a cancelled one
					derived, cancelDerived := gocontext.WithDeadline(ctx.Request().Context(), time.Now().Add(-time.Hour))
					defer cancelDerived()
					ctx.Request().Request = ctx.Request().WithContext(derived)
				case op == "p":
					ev("panic %d", i)
					panic(harnessPanic{i})
				}
			}
		}
		if h.Shape == "hf" {
			return http.HandlerFunc(func(w http.ResponseWriter, r *http.Request) {
				ev("enter %d", i)
				for _, op := range h.Ops {
					switch {
					case op[0] == 's':
						var code int
						fmt.Sscanf(op[1:], "%d", &code)
						w.WriteHeader(code)
					case op == "b":
						_, _ = w.Write([]byte(fmt.Sprintf("h%d;", i)))
					case op == "p":
						ev("panic %d", i)
						panic(harnessPanic{i})
					default:
						panic("harness: op " + op + " in an http.HandlerFunc program")
					}
				}
				ev("exit %d", i)
			})
		}
		switch h.Ret {
		case "str":
			return func(ctx flamego.Context) string { body(ctx); ev("exit %d", i); return fmt.Sprintf("ret%d;", i) }
		case "empty":
			return func(ctx flamego.Context) string { body(ctx); ev("exit %d", i); return "" }
		case "nilerr":
			return func(ctx flamego.Context) error { body(ctx); ev("exit %d", i); return nil }
		case "err":
			return func(ctx flamego.Context) error { body(ctx); ev("exit %d", i); return fmt.Errorf("err%d;", i) }
		}
		return func(ctx flamego.Context) { body(ctx); ev("exit %d", i) }
	}
	f := flamego.NewWithLogger(io.Discard)
	if c.Wrapper {
		// every handler of this harness is a closure of one function literal: a
		// wrapper (or anything keyed by the code pointer) must keep them apart
		f.HandlerWrapper(func(h flamego.Handler) flamego.Handler { return h })
	}
	for _, h := range c.Middleware {
		f.Use(mk(h))
	}
	var ghs [][]flamego.Handler
	for _, g := range c.Groups {
		var hs []flamego.Handler
		for _, h := range g {
			hs = append(hs, mk(h))
		}
		ghs = append(ghs, hs)
	}
	var rhs []flamego.Handler
	for _, h := range c.Route {
		rhs = append(rhs, mk(h))
	}
	sibling := func(k int) {
		f.Any(fmt.Sprintf("/sib%d", k), func(ctx flamego.Context) { ev("enter %d", 1000+k); ev("exit %d", 1000+k) })
	}
	var register func(depth int)
	register = func(depth int) {
		if depth == len(ghs) {
			for k := 0; k < c.SiblingsBefore; k++ {
				sibling(k)
			}
			if c.AutoHeadGet {
				f.AutoHead(true)
				f.Get("/r", rhs...)
				f.AutoHead(false)
			} else {
				f.Any("/r", rhs...)
			}
			for k := 0; k < c.SiblingsAfter; k++ {
				sibling(100 + k)
			}
			return
		}
		f.Group(c.groupPath(depth), func() { register(depth + 1) }, ghs[depth]...)
	}
	twin := func() {
		var reg func(depth int)
		reg = func(depth int) {
			if depth == len(ghs) {
				f.Any("/twin-route", func(ctx flamego.Context) { ev("enter %d", 3000); ev("exit %d", 3000) })
				return
			}
			d := depth
			f.Group(c.groupPath(depth), func() { reg(depth + 1) }, func(ctx flamego.Context) { ev("enter %d", 2000+d); ev("exit %d", 2000+d) })
		}
		reg(0)
	}
	if c.TwinGroups == "before" && len(ghs) > 0 {
		twin()
	}
	register(0)
	if c.TwinGroups == "after" && len(ghs) > 0 {
		twin()
	}
	if c.Action != nil {
		f.Action(mk(*c.Action))
	}
	path := ""
	for d := range ghs {
		path += c.groupPath(d)
	}
	path += "/r"
	method := c.Method
	if method == "" {
		method = "GET"
	}
	serveOnce := func() (r result) {
		trace = nil
		req := rt.NewRequest(method, path, nil)
		ctx, cf := gocontext.WithCancel(gocontext.Background())
		cancel = cf
		defer cf()
		if c.PreCancelled {
			cf()
		}
		defer func() {
			for _, f := range later {
				f()
			}
			later = nil
		}()
		req = req.WithContext(ctx)
		rec := httptest.NewRecorder()
		rec.Code = 0
		func() {
			defer func() {
				if p := recover(); p != nil {
					if _, ok := p.(harnessPanic); !ok {
						panic(p)
					}
					r.Escaped = true
				}
			}()
			if c.ReaderFrom {
				f.ServeHTTP(rfRecorder{rec}, req)
			} else {
				f.ServeHTTP(rec, req)
			}
		}()
		r.Trace = trace
		r.Status = rec.Code
		if !recWritten(rec) {
			r.Status = 0
		}
		r.Body = rec.Body.String()
		return r
	}
	res = serveOnce()
	// the same request once more on the same instance: nothing of the first
	// chain's state (cursor, handlers consumed) may be left behind
	again := serveOnce()
	if strings.Join(again.Trace, ",") != strings.Join(res.Trace, ",") || again.Status != res.Status || again.Body != res.Body || again.Escaped != res.Escaped {
		res.Second = fmt.Sprintf("the same request served again on the same instance gives trace %v status %d body %q (first time: trace %v status %d body %q)", again.Trace, again.Status, again.Body, res.Trace, res.Status, res.Body)
	}
	if c.ClearMiddleware {
		f.Handlers()
		third := serveOnce()
		c2 := c
		c2.Middleware, c2.ClearMiddleware = nil, false
		fresh := realFrom(c2, base+len(c.Middleware))
		if strings.Join(third.Trace, ",") != strings.Join(fresh.Trace, ",") || third.Status != fresh.Status || third.Body != fresh.Body || third.Escaped != fresh.Escaped {
			res.Cleared = fmt.Sprintf("after Handlers() with no arguments the request gives trace %v status %d body %q; an instance that never had middleware gives trace %v status %d body %q", third.Trace, third.Status, third.Body, fresh.Trace, fresh.Status, fresh.Body)
		}
	}
	return res
}

func recWritten(rec *httptest.ResponseRecorder) bool {
	// httptest.ResponseRecorder defaults Code to 200; we preset it to 0 so a
	// non-zero code means WriteHeader/Write happened
	return rec.Code != 0
}

func checkCase(c Case) (out evid.Outcome) {
	if c.Pad > 0 {
		c.Middleware = append(make([]H, c.Pad), c.Middleware...)
		c.Pad = 0
		out = checkCase(c)
		out.Classes = append(out.Classes, "long-chain")
		return out
	}
	out = checkAgainst(c, reference(c))
	if out.Violation != "" && c.PreCancelled {
		// a request that arrives cancelled: the statement says when the chain
		// *advances*; whether the first handler is started at all is open. The
		// other reading: it runs, and the chain stops behind it.
		c2 := c
		c2.PreCancelled = false
		c2.Middleware = append([]H(nil), c.Middleware...)
		c2.Groups = append([][]H(nil), c.Groups...)
		c2.Route = append([]H(nil), c.Route...)
		first := func(h H) H { return H{Ops: append([]string{"c"}, h.Ops...), Ret: h.Ret} }
		switch {
		case len(c2.Middleware) > 0:
			c2.Middleware[0] = first(c2.Middleware[0])
		default:
			done := false
			for gi, g := range c2.Groups {
				if len(g) > 0 && !done {
					ng := append([]H(nil), g...)
					ng[0] = first(ng[0])
					c2.Groups[gi] = ng
					done = true
				}
			}
			if !done {
				c2.Route[0] = first(c2.Route[0])
			}
		}
		if o2 := checkAgainst(c, reference(c2)); o2.Violation == "" {
			o2.Classes = append(o2.Classes, "arrives-cancelled-first-handler-runs")
			return o2
		}
	}
	if c.PreCancelled {
		out.Classes = append(out.Classes, "arrives-cancelled")
	}
	if c.ClearMiddleware {
		out.Classes = append(out.Classes, "handlers-cleared-afterwards")
	}
	for _, h := range c.flat() {
		for _, op := range h.Ops {
			if op == "m" {
				out.Classes = append(out.Classes, "writer-re-registered")
			}
		}
	}
	return out
}

func checkAgainst(c Case, want result) (out evid.Outcome) {
	got := real(c)
	hs := c.flat()
	// classification on the reference trace
	written, cancelled := false, false
	depthNext := 0
	_ = depthNext
	for i, h := range hs {
		nn := 0
		seenWriteOrCancel := false
		for _, op := range h.Ops {
			switch {
			case op == "n" || op == "r":
				nn++
				if seenWriteOrCancel {
					out.NonTrivial = true
					out.Classes = append(out.Classes, "next-after-write-or-cancel")
				}
			case op == "b" || op == "bc" || op == "b0" || op[0] == 's' || op == "c" || op == "d" || op == "t":
				seenWriteOrCancel = true
				if op == "bc" {
					out.Classes = append(out.Classes, "body-streamed-with-io.Copy")
				}
			}
		}
		if nn >= 2 {
			out.NonTrivial = true
			out.Classes = append(out.Classes, "next-twice")
		}
		_ = i
	}
	_, _ = written, cancelled
	inNext := 0
	for _, e := range want.Trace {
		switch {
		case strings.HasPrefix(e, "next "):
			inNext++
		case strings.HasPrefix(e, "back "):
			inNext--
		case strings.HasPrefix(e, "recovered "):
			out.NonTrivial = true
			out.Classes = append(out.Classes, "panic-recovered")
		}
	}
	if want.Escaped {
		out.Classes = append(out.Classes, "panic-escaped")
	}
	if c.Action == nil && len(want.Trace) > 0 {
		// did the chain run off the end?
		last := len(hs) - 1
		for _, e := range want.Trace {
			if e == fmt.Sprintf("exit %d", last) && want.Status == 0 {
				out.NonTrivial = true
				out.Classes = append(out.Classes, "nil-action-reached")
			}
		}
	}
	nested := false
	depth := 0
	for _, e := range want.Trace {
		if strings.HasPrefix(e, "next ") {
			depth++
		}
		if strings.HasPrefix(e, "back ") {
			depth--
		}
		if strings.HasPrefix(e, "enter ") && depth > 0 {
			nested = true
		}
	}
	if c.Method == "HEAD" {
		out.Classes = append(out.Classes, "head")
	}
	if c.SiblingsBefore+c.SiblingsAfter > 0 && len(c.Groups) >= 2 {
		out.Classes = append(out.Classes, "siblings-in-nested-group")
	}
	if nested && want.Status != 0 {
		out.NonTrivial = true
		out.Classes = append(out.Classes, "write-with-nesting")
	}

	// model-free invariants on the real trace
	nextEnter := 0
	var stack []string
	for _, e := range got.Trace {
		var k int
		switch {
		case strings.HasPrefix(e, "enter "):
			fmt.Sscanf(e, "enter %d", &k)
			if k != nextEnter {
				return fail(out, "order", "handler %d entered when %d was due (a handler was %s); trace %v; program %s", k, nextEnter, skipOrRepeat(k, nextEnter), got.Trace, js(c))
			}
			nextEnter++
			stack = append(stack, e)
		case strings.HasPrefix(e, "exit "):
			fmt.Sscanf(e, "exit %d", &k)
			if len(stack) == 0 || stack[len(stack)-1] != fmt.Sprintf("enter %d", k) {
				if !want.Escaped && !strings.Contains(strings.Join(got.Trace, " "), "panic") {
					return fail(out, "nesting", "exit %d does not match the innermost entered handler; trace %v", k, got.Trace)
				}
			} else {
				stack = stack[:len(stack)-1]
			}
		case strings.HasPrefix(e, "panic "):
			// unwinding: drop frames up to the recovering one lazily
		case strings.HasPrefix(e, "recovered "):
			fmt.Sscanf(e, "recovered %d", &k)
			for len(stack) > 0 && stack[len(stack)-1] != fmt.Sprintf("enter %d", k) {
				stack = stack[:len(stack)-1]
			}
		}
	}

	if got.Second != "" {
		return fail(out, "second-request", "%s; program %s", got.Second, js(c))
	}
	if got.Cleared != "" {
		return fail(out, "middleware-cleared", "%s; program %s", got.Cleared, js(c))
	}
	// what the chain does once a panic has crossed run() and was recovered by an
	// outer handler is not said by the statement: the traces are compared up to
	// the first recovery, the response is not compared then
	recovered := false
	cut := func(tr []string) []string {
		for i, e := range tr {
			if strings.HasPrefix(e, "recovered ") {
				recovered = true
				return tr[:i+1]
			}
		}
		return tr
	}
	got.Trace, want.Trace = cut(got.Trace), cut(want.Trace)
	if strings.Join(got.Trace, ",") != strings.Join(want.Trace, ",") {
		return fail(out, "trace", "trace differs from the statement's interpreter:\n  got  %v\n  want %v\n  program %s", got.Trace, want.Trace, js(c))
	}
	if recovered {
		return out
	}
	// what a Flame without Recovery does with a handler's panic is not part of the
	// statement: the trace up to the panic has been compared, nothing else is
	if want.Escaped {
		return out
	}
	if got.Escaped {
		return fail(out, "escape", "a panic escaped ServeHTTP although no handler of the program panics; program %s", js(c))
	}
	if got.Status != want.Status || got.Body != want.Body {
		return fail(out, "response", "status %d body %q, interpreter gives status %d body %q; program %s", got.Status, got.Body, want.Status, want.Body, js(c))
	}
	return out
}

func skipOrRepeat(k, due int) string {
	if k > due {
		return "skipped"
	}
	return "repeated"
}

func fail(out evid.Outcome, sig, format string, args ...interface{}) evid.Outcome {
	o := evid.Fail(sig, format, args...)
	o.NonTrivial, o.Classes = out.NonTrivial, out.Classes
	return o
}

func js(v interface{}) string {
	b, _ := json.Marshal(v)
	return string(b)
}

// ---- generator --------------------------------------------------------------------

func genH(t *rapid.T) H {
	var h H
	n := rapid.IntRange(0, 4).Draw(t, "nops")
	for i := 0; i < n; i++ {
		switch k := rapid.IntRange(0, 19).Draw(t, "op"); {
		case k < 7:
			h.Ops = append(h.Ops, "n")
		case k < 9:
			h.Ops = append(h.Ops, "r")
		case k < 12:
			// (whether an informational status or a Write of no bytes counts as
			// "something has been written" is C13's to say: it holds Written()
			// against every such operation; the chain is only driven with writes
			// nobody can argue about)
			h.Ops = append(h.Ops, "b")
		case k < 13:
			h.Ops = append(h.Ops, "bc")
		case k < 16:
			h.Ops = append(h.Ops, fmt.Sprintf("s%d", []int{200, 201, 204, 302, 404, 500}[rapid.IntRange(0, 5).Draw(t, "code")]))
		case k < 17:
			h.Ops = append(h.Ops, "c")
		case k < 18:
			h.Ops = append(h.Ops, []string{"d", "d", "t", "l", "l", "m", "m"}[rapid.IntRange(0, 6).Draw(t, "dk")])
		default:
			// (panics are rare: everything behind the first one is only compared
			// up to the point where it is recovered)
			if rapid.IntRange(0, 3).Draw(t, "panic") == 0 {
				h.Ops = append(h.Ops, "p")
			} else {
				h.Ops = append(h.Ops, "n")
			}
		}
	}
	h.Ret = []string{"", "", "", "", "str", "empty", "nilerr", "err"}[rapid.IntRange(0, 7).Draw(t, "ret")]
	if rapid.IntRange(0, 7).Draw(t, "hf") == 0 {
		// a handler of type http.HandlerFunc: what is left of the program are its
		// writes (and a panic)
		var ops []string
		for _, op := range h.Ops {
			if op == "b" || op[0] == 's' || op == "p" {
				ops = append(ops, op)
			}
		}
		h = H{Ops: ops, Shape: "hf"}
	}
	return h
}

func genCase(t *rapid.T) Case {
	var c Case
	for i, n := 0, rapid.IntRange(0, 3).Draw(t, "nmw"); i < n; i++ {
		c.Middleware = append(c.Middleware, genH(t))
	}
	for i, n := 0, rapid.IntRange(0, 3).Draw(t, "ngroups"); i < n; i++ {
		var g []H
		for j, k := 0, rapid.IntRange(0, 2).Draw(t, "ng"); j < k; j++ {
			g = append(g, genH(t))
		}
		c.Groups = append(c.Groups, g)
	}
	for i, n := 0, rapid.IntRange(1, 3).Draw(t, "nroute"); i < n; i++ {
		c.Route = append(c.Route, genH(t))
	}
	if rapid.IntRange(0, 2).Draw(t, "action") > 0 {
		h := genH(t)
		c.Action = &h
	}
	c.Method = []string{"GET", "GET", "HEAD"}[rapid.IntRange(0, 2).Draw(t, "method")]
	c.SiblingsBefore = rapid.IntRange(0, 2).Draw(t, "sibbefore")
	c.SiblingsAfter = rapid.IntRange(0, 2).Draw(t, "sibafter")
	if len(c.Groups) > 0 {
		c.TwinGroups = []string{"", "", "", "before", "after"}[rapid.IntRange(0, 4).Draw(t, "twingroups")]
	}
	c.ReaderFrom = rapid.Bool().Draw(t, "readerfrom")
	c.Wrapper = rapid.IntRange(0, 3).Draw(t, "wrapper") == 0
	c.AutoHeadGet = rapid.IntRange(0, 3).Draw(t, "autoheadget") == 0
	c.PreCancelled = rapid.IntRange(0, 11).Draw(t, "precancelled") == 0
	if rapid.IntRange(0, 19).Draw(t, "long") == 0 {
		c.Pad = rapid.IntRange(240, 300).Draw(t, "pad")
	}
	c.ClearMiddleware = len(c.Middleware) > 0 && rapid.IntRange(0, 3).Draw(t, "clearmw") == 0
	if len(c.Groups) > 0 && rapid.IntRange(0, 3).Draw(t, "emptygroup") == 0 {
		c.EmptyGroupPath = rapid.IntRange(1, 1<<len(c.Groups)-1).Draw(t, "emptymask")
	}
	return c
}

func TestProp(t *testing.T) {
	evid.Rapid(t, "chain", 8000, 100000, func(t *rapid.T) {
		c := genCase(t)
		evid.Run(t, "chain", c, func() evid.Outcome { return checkCase(c) })
	})
}

func TestPinned(t *testing.T) {
	cases := []Case{
		// the fixed finding: Next twice around an early stop
		{Middleware: []H{{Ops: []string{"n", "n"}}}, Route: []H{{Ops: []string{"b"}}, {}, {}}},
		// the repository's own scenarios
		{Middleware: []H{{Ops: []string{"n"}}, {Ops: []string{"n"}}}, Route: []H{{Ops: []string{"b"}}}, Action: &H{Ops: []string{"b"}}},
		{Middleware: []H{{Ops: []string{"c"}}}, Route: []H{{Ops: []string{"b"}}}},
		{Route: []H{{}}, Action: nil},
		// long chains around the 255 / 256 marks
		{Pad: 254, Route: []H{{Ops: []string{"n", "n"}}}, Action: &H{Ops: []string{"b"}}},
		{Pad: 255, Route: []H{{}}, Action: &H{Ops: []string{"b"}}},
		{Pad: 256, Middleware: []H{{Ops: []string{"n"}}}, Route: []H{{}, {Ops: []string{"b"}}}},
	}
	for _, c := range cases {
		c := c
		evid.Run(t, "chain", c, func() evid.Outcome { return checkCase(c) })
	}
}

func TestReplay(t *testing.T) {
	evid.Replay(t, map[string]evid.ReplayFn{
		"chain": func(raw json.RawMessage) evid.Outcome {
			var c Case
			if err := json.Unmarshal(raw, &c); err != nil {
				panic(err)
			}
			return checkCase(c)
		},
	})
}
