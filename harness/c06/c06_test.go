// Package c06 decides property C06: the route parser is total, accepts
// exactly the documented grammar, the parsed structure mirrors the derivation
// and the canonical rendering is a fixpoint.
package c06

import (
	"encoding/json"
	"fmt"
	"reflect"
	"strconv"
	"strings"
	"testing"
	"time"

	"pgregory.net/rapid"

	"github.com/flamego/flamego/internal/route"
	"github.com/flamego/flamego/verifharness/internal/evid"
	"github.com/flamego/flamego/verifharness/internal/gen"
	"github.com/flamego/flamego/verifharness/internal/model"
)

const rule = "inputs: (a) every string up to a length bound over the token alphabet, (b) random grammar derivations with random spacing, " +
	"(b2) pairs of strings for reference-free relations (closure under concatenation and splitting, rendering distributes over concatenation), (c) byte-level mutations of accepted strings and insertions of code points that fold to ASCII letters, digits or blanks, (d) native fuzzing in the thorough tier. " +
	"non-trivial = an accepted string, or a rejected string that one deletion turns into an accepted one (the boundary of the language); distinct by input text"

var assumptions = []string{
	"reference recogniser internal/model/grammar.go transcribes the EBNF of internal/route/README.md; <ident> additionally contains '$' (tree_test.go registers /webapi/special/test@$), <regex> is [a-zA-Z0-9*\\-+._,?()\\[\\]{} \\\\|]",
	"blanks are exactly U+0020",
	"a route handed to a routing tree stays the parsed route: its String() afterwards is the canonical form (clause canonical-after-addroute; a tree that took ownership of the syntax tree and rewrote it would trip this clause and no other)",
}

func TestMain(m *testing.M) {
	// C06 states termination: a case that does not return is a violation
	evid.Watchdog(60 * time.Second)
	evid.Main(m, "C06", rule, assumptions)
}

var parser = func() *route.Parser {
	p, err := route.NewParser()
	if err != nil {
		panic(err)
	}
	return p
}()

// Case is one input string, kept in strconv.Quote form so that arbitrary bytes
// survive JSON.
type Case struct {
	Q string `json:"q"`
}

func mk(s string) Case { return Case{Q: strconv.Quote(s)} }

func (c Case) str() string {
	s, err := strconv.Unquote(c.Q)
	if err != nil {
		panic("bad case: " + err.Error())
	}
	return s
}

// astToModel converts the parser's AST into the derivation type.
func astToModel(r *route.Route) model.Route {
	var out model.Route
	for _, s := range r.Segments {
		seg := model.Seg{Optional: s.Optional}
		for _, e := range s.Elements {
			switch {
			case e.Ident != nil:
				seg.Elems = append(seg.Elems, model.Elem{Lit: *e.Ident})
			case e.BindIdent != nil:
				seg.Elems = append(seg.Elems, model.Elem{Bind: *e.BindIdent})
			case e.BindParameters != nil:
				el := model.Elem{Params: []model.Param{}}
				for _, p := range e.BindParameters.Parameters {
					switch {
					case p.Value.Regex != nil:
						el.Params = append(el.Params, model.Param{Name: p.Ident, IsRegex: true, Value: *p.Value.Regex})
					case p.Value.Literal != nil:
						el.Params = append(el.Params, model.Param{Name: p.Ident, Value: *p.Value.Literal})
					default:
						el.Params = append(el.Params, model.Param{Name: p.Ident, Value: "<no value>"})
					}
				}
				seg.Elems = append(seg.Elems, el)
			default:
				seg.Elems = append(seg.Elems, model.Elem{Lit: "<empty element>"})
			}
		}
		out.Segs = append(out.Segs, seg)
	}
	return out
}

// strip removes the spacing information of a derivation.
func strip(r model.Route) model.Route {
	var out model.Route
	for _, s := range r.Segs {
		seg := model.Seg{Optional: s.Optional}
		for _, e := range s.Elems {
			el := model.Elem{Lit: e.Lit, Bind: e.Bind}
			if e.Params != nil {
				el.Params = []model.Param{}
				for _, p := range e.Params {
					el.Params = append(el.Params, model.Param{Name: p.Name, IsRegex: p.IsRegex, Value: p.Value})
				}
			}
			seg.Elems = append(seg.Elems, el)
		}
		out.Segs = append(out.Segs, seg)
	}
	return out
}

// checkString is the oracle for one input string.
func checkString(s string) evid.Outcome {
	want, accept := model.ParseRef(s)
	got, err := parser.Parse(s)
	out := evid.Outcome{}
	if model.AcceptsDoc(s) != accept || model.AcceptsLoose(s) != accept {
		// the README spells the terminal classes twice and not alike ("$" in an
		// identifier, "~ @ ! & ' ; % =" inside a regex value), and its second
		// grammar lets a parameter follow a regex value without a comma where
		// the first demands one: such a string may be accepted or rejected; it
		// must be handled cleanly, and when accepted its rendering must be a
		// fixpoint. When the lexer's reading accepts it and so does the parser,
		// everything below applies to it as well - only accept / reject is open.
		out.Classes = append(out.Classes, "alphabet-left-open")
		if err == nil && got != nil {
			r1 := got.String()
			again, err2 := parser.Parse(r1)
			if err2 != nil || again.String() != r1 {
				return fail(out, "fixpoint", "%q is accepted and renders to %q, which does not parse back to itself (%v)", s, r1, err2)
			}
		}
		if !(accept && err == nil) {
			return out
		}
		out.Classes = append(out.Classes, "left-open-but-taken-like-the-lexer")
	}
	if accept {
		out.NonTrivial = true
		out.Classes = append(out.Classes, "accepted")
	} else {
		out.Classes = append(out.Classes, "rejected")
		for i := 0; i < len(s) && len(s) <= 2000 && !out.NonTrivial; i++ { // (classification only; quadratic)
			if model.Accepts(s[:i] + s[i+1:]) {
				out.NonTrivial = true
				out.Classes = append(out.Classes, "rejected-boundary")
			}
		}
	}
	if (err == nil) != accept {
		if accept {
			return fail(out, "reject-valid", "grammar accepts %q but Parse fails: %v", s, err)
		}
		return fail(out, "accept-invalid", "grammar rejects %q but Parse accepts it as %q", s, got.String())
	}
	if !accept {
		// participle hands back the partial tree next to the error; callers
		// look at the error, so that is not held against the parser.
		return out
	}
	if got == nil {
		return fail(out, "nil-route", "Parse(%q) returned neither a route nor an error", s)
	}
	// structure mirrors the derivation
	ast := astToModel(got)
	if !reflect.DeepEqual(ast, strip(want)) {
		return fail(out, "structure", "Parse(%q): structure %s, derivation %s", s, js(ast), js(strip(want)))
	}
	// canonical form
	canon := want.Canon()
	if got.String() != canon {
		return fail(out, "canonical", "Parse(%q).String() = %q, want canonical %q", s, got.String(), canon)
	}
	if canon != s {
		out.Classes = append(out.Classes, "spacing-normalised")
	}
	// fixpoint
	again, err := parser.Parse(canon)
	if err != nil {
		return fail(out, "reparse", "canonical %q of %q does not parse: %v", canon, s, err)
	}
	if !reflect.DeepEqual(astToModel(again), ast) {
		return fail(out, "reparse-structure", "canonical %q of %q parses to a different structure", canon, s)
	}
	if again.String() != canon {
		return fail(out, "fixpoint", "canonical %q renders to %q", canon, again.String())
	}
	// segment rendering adds up to the route rendering
	var sb strings.Builder
	if fresh, err := parser.Parse(s); err == nil && fresh != nil {
		// (a route nobody has rendered yet: the segments are asked first)
		for _, sg := range fresh.Segments {
			sb.WriteString(sg.String())
		}
	}
	if sb.String() != canon {
		return fail(out, "segments", "segment renderings of %q concatenate to %q, want %q", s, sb.String(), canon)
	}
	// the canonical form is the route's, whoever looked at the route first: a
	// route handed to a routing tree (which has routes already) before anybody
	// rendered it renders like any other
	if fresh, err := parser.Parse(s); err == nil && fresh != nil {
		if sib, serr := parser.Parse("/zz-sibling/?{zz}"); serr == nil {
			tree := route.NewTree()
			_, _ = route.AddRoute(tree, sib, nil)
			func() {
				defer func() { _ = recover() }() // (whether the tree takes the route is C08's business)
				_, _ = route.AddRoute(tree, fresh, nil)
			}()
			if got := fresh.String(); got != canon {
				return fail(out, "canonical-after-addroute", "Parse(%q), added to a routing tree and rendered only then: String() = %q, want %q", s, got, canon)
			}
		}
	}
	return out
}

func fail(out evid.Outcome, sig, format string, args ...interface{}) evid.Outcome {
	out.Violation = fmt.Sprintf(format, args...)
	out.Sig = sig
	return out
}

func js(v interface{}) string {
	b, _ := json.Marshal(v)
	return string(b)
}

// ---- (a) exhaustive enumeration -------------------------------------------

func enumerate(t *testing.T, name string, alphabet []byte, maxLen int) {
	enumerateIn(t, name, "", "", alphabet, maxLen)
}

// enumerateIn checks every string prefix+w+suffix for w of length <= maxLen
// over the alphabet: the frame puts the enumeration inside a lexer state that
// short strings from the start symbol never reach.
func enumerateIn(t *testing.T, name, prefix, suffix string, alphabet []byte, maxLen int) {
	k, n := evid.Shard()
	bulk := evid.NewBulk(name)
	buf := make([]byte, 0, maxLen)
	var idx uint64
	var rec func(depth int)
	failed := false
	rec = func(depth int) {
		if failed {
			return
		}
		idx++
		// shard by ordinal of the string; every string belongs to one shard
		if int(idx%uint64(n)) == k {
			s := prefix + string(buf) + suffix
			evid.Inflight("string", mk(s))
			out := evid.Protect(func() evid.Outcome { return checkString(s) })
			evid.InflightDone()
			bulk.Add(strconv.Quote(s), out.NonTrivial, out.Classes...)
			if out.Violation != "" {
				failed = true
				evid.BulkFail(t, "string", mk(s), out)
				return
			}
		}
		if depth == maxLen {
			return
		}
		// only strings starting with '/' can be in the language, but the
		// others are enumerated too: rejection must be clean as well
		for _, c := range alphabet {
			buf = append(buf, c)
			rec(depth + 1)
			buf = buf[:len(buf)-1]
		}
	}
	rec(0)
	bulk.Done(fmt.Sprintf("all strings %q + w + %q with w of length <= %d over alphabet %q (shard %d of %d)", prefix, suffix, maxLen, string(alphabet), k, n))
}

// tokenAlphabet has one representative per token class of the grammar plus
// characters outside every class.
var tokenAlphabet = []byte{'/', '?', '{', '}', ':', ',', ' ', 'a', '*', '[', '\t', '#', '$'}

// structAlphabet are the structural symbols plus one identifier character.
var structAlphabet = []byte{'/', '?', '{', '}', ':', ',', ' ', 'a'}

func TestExhaustiveTokens(t *testing.T) {
	l := 6
	if evid.Thorough() {
		l = 7
	}
	enumerate(t, "exhaustive-token-alphabet", tokenAlphabet, l)
}

func TestExhaustiveStructure(t *testing.T) {
	l := 7
	if evid.Thorough() {
		l = 9
	}
	enumerate(t, "exhaustive-structural-alphabet", structAlphabet, l)
}

// regexAlphabet: characters of the regex class, of the identifier class only,
// of both, of neither, and the symbols that end or structure a value.
var regexAlphabet = []byte{'a', '*', '[', '\\', ' ', '@', '%', '$', '/', '}', ',', ':', '{', '\t', '#'}

// TestExhaustiveInsideValues enumerates inside a regex value, behind a regex
// value and inside a parameter list - places the enumerations from the start
// symbol are too short to reach (the shortest regex-valued route has 8
// characters, the shortest two-parameter list 10).
func TestExhaustiveInsideValues(t *testing.T) {
	l := 3
	if evid.Thorough() {
		l = 4
	}
	enumerateIn(t, "exhaustive-inside-regex-value", "/{a:/", "/}", regexAlphabet, l)
	enumerateIn(t, "exhaustive-behind-regex-value", "/{a: /b/", "", regexAlphabet, l)
	enumerateIn(t, "exhaustive-inside-parameter-list", "/{a:b", "c:d}", regexAlphabet, l)
	enumerateIn(t, "exhaustive-second-parameter", "/x{a: b,", "}/?y", regexAlphabet, l)
}

// TestLongInputs: parsing terminates and stays panic-free on inputs far longer
// than any real route (runs of one token, deep runs of opening brackets,
// thousands of segments).
func TestLongInputs(t *testing.T) {
	evid.Rapid(t, "string", 60, 600, func(t *rapid.T) {
		unit := []string{"/a", "{", "}", "/{a}", "/{a: /b/}", "{a: ", "/?", ",", ":", "/{a: /[", "\\", " ", "/{a:b,c:d}", "{{", "/a{b}c"}[rapid.IntRange(0, 14).Draw(t, "unit")]
		n := []int{1000, 5000, 20000, 100000}[rapid.IntRange(0, 3).Draw(t, "n")] / len(unit)
		s := rapid.SampledFrom([]string{"", "/", "/x"}).Draw(t, "head") + strings.Repeat(unit, n) + rapid.SampledFrom([]string{"", "}", "/"}).Draw(t, "tail")
		c := mk(s)
		evid.Run(t, "string", c, func() evid.Outcome {
			out := checkString(s)
			out.Classes = append(out.Classes, "long-input")
			return out
		})
	})
}

// ---- (b) random derivations -------------------------------------------------

// wildRoute draws a derivation of the full grammar, including shapes that are
// grammatical but meaningless to the router (literal parameter values, several
// parameters, empty and optional segments anywhere).
func wildRoute(t *rapid.T) model.Route {
	// ("$" is in the lexer's alphabet but not in the README's: drawn rarely, so
	// that most derivations get the full oracle)
	identNoDollar := rapid.StringMatching(`[a-zA-Z0-9\-._~@!&'()*+;%=]{1,6}`)
	identDollar := rapid.StringMatching(`[a-zA-Z0-9\-._~@!$&'()*+;%=]{1,6}`)
	ident := identNoDollar
	if rapid.IntRange(0, 9).Draw(t, "dollar") == 0 {
		ident = identDollar
	}
	regex := rapid.StringMatching(`[a-zA-Z0-9*\-+._,?()\[\]{} \\|]{1,8}`)
	n := rapid.IntRange(1, 5).Draw(t, "nsegs")
	var r model.Route
	for i := 0; i < n; i++ {
		var s model.Seg
		s.Optional = rapid.IntRange(0, 5).Draw(t, "opt") == 0
		ne := rapid.IntRange(0, 4).Draw(t, "nelems")
		prevLit := false
		for j := 0; j < ne; j++ {
			switch k := rapid.IntRange(0, 2).Draw(t, "ekind"); {
			case k == 0 && !prevLit:
				s.Elems = append(s.Elems, model.Elem{Lit: ident.Draw(t, "lit")})
				prevLit = true
				continue
			case k == 1:
				s.Elems = append(s.Elems, model.Elem{Bind: ident.Draw(t, "bind")})
			default:
				np := rapid.IntRange(1, 3).Draw(t, "nparams")
				e := model.Elem{Params: []model.Param{}}
				for q := 0; q < np; q++ {
					p := model.Param{Name: ident.Draw(t, "pname"), Blanks: rapid.IntRange(0, 3).Draw(t, "blanks")}
					if q > 0 {
						p.Lead = rapid.IntRange(0, 3).Draw(t, "lead")
					}
					if rapid.Bool().Draw(t, "isre") {
						p.IsRegex = true
						p.Value = regex.Draw(t, "regex")
					} else {
						p.Value = ident.Draw(t, "literal")
					}
					e.Params = append(e.Params, p)
				}
				s.Elems = append(s.Elems, e)
			}
			prevLit = false
		}
		r.Segs = append(r.Segs, s)
	}
	return r
}

type DerivCase struct {
	Q string      `json:"q"`
	D model.Route `json:"d"`
}

// spacingNeighbours returns variants of s with one blank inserted after, or
// removed after, a ':' or ',' - wherever it occurs, also inside regex text,
// where a blank is part of the value. Parsing them right after s with the same
// parser instance shows whether anything is carried from one parse to the next.
func spacingNeighbours(s string) []string {
	var out []string
	// (at most 24 places - the first and the last dozen: an input that is one
	// long run of separators would otherwise cost its length squared, and the
	// check of one string is itself linear to quadratic in its length)
	var places []int
	for i := 0; i < len(s); i++ {
		if s[i] == ':' || s[i] == ',' {
			places = append(places, i)
		}
	}
	if len(places) > 24 {
		places = append(append([]int(nil), places[:12]...), places[len(places)-12:]...)
	}
	for _, i := range places {
		out = append(out, s[:i+1]+" "+s[i+1:])
		if i+1 < len(s) && s[i+1] == ' ' {
			out = append(out, s[:i+1]+s[i+2:])
		}
	}
	return out
}

// checkWithNeighbours checks s, then its spacing neighbours, then s again.
func checkWithNeighbours(s string) evid.Outcome {
	out := checkString(s)
	if out.Violation != "" || len(s) > 4096 {
		// (very long inputs are judged on their own, as TestLongInputs does: with
		// their neighbours one case costs a minute on a busy machine)
		return out
	}
	for _, n := range spacingNeighbours(s) {
		if o := checkString(n); o.Violation != "" {
			o.Violation = fmt.Sprintf("after parsing %q with the same parser: %s", s, o.Violation)
			return o
		}
	}
	if o := checkString(s); o.Violation != "" {
		o.Violation = "parsed again after its spacing neighbours: " + o.Violation
		return o
	}
	return out
}

func checkDerivation(c DerivCase) evid.Outcome {
	s, err := strconv.Unquote(c.Q)
	if err != nil {
		panic(err)
	}
	// the generator and the reference parser must agree first (harness sanity)
	ref, ok := model.ParseRef(s)
	if !ok || !reflect.DeepEqual(strip(ref), strip(c.D)) {
		panic(fmt.Sprintf("harness: derivation %s renders to %q which the reference parser reads as %s (ok=%v)", js(c.D), s, js(ref), ok))
	}
	out := checkWithNeighbours(s)
	out.NonTrivial = true
	got, perr := parser.Parse(s)
	if out.Violation == "" && perr == nil && !reflect.DeepEqual(astToModel(got), strip(c.D)) {
		return fail(out, "structure", "Parse(%q) does not mirror the derivation %s", s, js(c.D))
	}
	nb := 0
	for _, sg := range c.D.Segs {
		for _, e := range sg.Elems {
			nb += len(e.Params)
			if len(e.Params) > 1 {
				out.Classes = append(out.Classes, "multi-param")
			}
		}
		if sg.Optional {
			out.Classes = append(out.Classes, "optional")
		}
		if len(sg.Elems) == 0 {
			out.Classes = append(out.Classes, "empty-segment")
		}
	}
	if nb > 0 {
		out.Classes = append(out.Classes, "has-params")
	}
	return out
}

func TestDerivations(t *testing.T) {
	evid.Rapid(t, "derivation", 4000, 60000, func(t *rapid.T) {
		var d model.Route
		if rapid.Bool().Draw(t, "wild") {
			d = wildRoute(t)
		} else {
			d = gen.Route(t, gen.RouteOpts{MaxSegs: 5, WildSpacing: true})
		}
		c := DerivCase{Q: strconv.Quote(d.Source()), D: d}
		evid.Run(t, "derivation", c, func() evid.Outcome { return checkDerivation(c) })
	})
}

// ---- (b') metamorphic relations without the reference recogniser -----------------
//
// The grammar is Route = Segment+, so the language is closed under
// concatenation and under splitting at a segment boundary, and rendering
// distributes over concatenation. Only the real parser is consulted here.

type PairCase struct {
	A string `json:"a"`
	B string `json:"b"`
}

func checkPair(c PairCase) evid.Outcome {
	a, b := mustUnquote(c.A), mustUnquote(c.B)
	ra, ea := parser.Parse(a)
	rb, eb := parser.Parse(b)
	rab, eab := parser.Parse(a + b)
	out := evid.Outcome{Classes: []string{"concatenation"}}
	if ea == nil && eb == nil {
		out.NonTrivial = true
		if eab != nil {
			return fail(out, "closure", "%q and %q are routes but their concatenation is rejected: %v", a, b, eab)
		}
		if rab.String() != ra.String()+rb.String() {
			return fail(out, "render-concat", "String(%q+%q) = %q, String(a)+String(b) = %q", a, b, rab.String(), ra.String()+rb.String())
		}
		if len(rab.Segments) != len(ra.Segments)+len(rb.Segments) {
			return fail(out, "segments-concat", "%q+%q has %d segments, the parts have %d and %d", a, b, len(rab.Segments), len(ra.Segments), len(rb.Segments))
		}
	}
	if eab == nil && ea == nil && eb != nil && strings.HasPrefix(b, "/") {
		// a is a route and a+b is one: b starts at a segment boundary, so it is a route too
		return fail(out, "split", "%q and %q are routes but %q is rejected: %v", a, a+b, b, eb)
	}
	return out
}

func mustUnquote(q string) string {
	s, err := strconv.Unquote(q)
	if err != nil {
		panic(err)
	}
	return s
}

func TestConcatenation(t *testing.T) {
	evid.Rapid(t, "pair", 3000, 40000, func(t *rapid.T) {
		draw := func(label string) string {
			switch rapid.IntRange(0, 3).Draw(t, label) {
			case 0:
				return wildRoute(t).Source()
			case 1:
				return gen.Route(t, gen.RouteOpts{MaxSegs: 3, WildSpacing: true}).Source()
			case 2:
				return seeds[rapid.IntRange(0, len(seeds)-1).Draw(t, label+"seed")]
			default:
				return mutate(t, gen.Route(t, gen.RouteOpts{MaxSegs: 2}).Source())
			}
		}
		c := PairCase{A: strconv.Quote(draw("a")), B: strconv.Quote(draw("b"))}
		evid.Run(t, "pair", c, func() evid.Outcome { return checkPair(c) })
	})
}

// ---- (c) mutations ---------------------------------------------------------

var seeds = []string{
	"/webapi", "/webapi/users", "/webapi/users/?{id}", "/{name}",
	"/webapi/{name-1}/{name-2: /[a-z0-9]{7, 40}/}",
	"/webapi/{name-1}/{name-2: /[a-z0-9]{7, 40}/}/{year: regex2}-{month-day}",
	"/webapi/{name-1}/{name-2: /[a-z0-9]{7, 40}/}/{year: regex2}-{month-day}/{**: **, capture:  3}",
	"/webapi/{username}/%E4%BD%A0%E5%A5%BD%E4%B8%96%E7%95%8C/test@$",
	"/webapi/projects/{name}/hashes/{ids: **}/diff/{lineno}",
	`/{sha: /[a-z0-9]{7,40}/}{ext: /(\.(patch|diff))?/}`,
	"/{year: /[0-9]{4}/, month: /[0-9]{2}/}", "/", "/?a", "/a/", "/{**}",
	"webapi", "/webapi/{name", "/webapi/name}", "/webapi/{name: [a-z]}",
}

// tricky are code points that case folding, width folding or "is it a blank /
// digit / letter" predicates confuse with members of the ASCII alphabets.
var tricky = []string{"\u212a", "\u017f", "\u0130", "\u0131", "\u00e9", "\uff21", "\uff10", "\u0663", "\u00a0", "\u2028", "\u200b", "\ufeff", "\u2160", "\u00df", "\u1e9e"}

func mutate(t *rapid.T, s string) string {
	b := []byte(s)
	n := rapid.IntRange(1, 3).Draw(t, "nmut")
	if rapid.IntRange(0, 4).Draw(t, "tricky") == 0 {
		j := rapid.IntRange(0, len(b)).Draw(t, "tj")
		x := tricky[rapid.IntRange(0, len(tricky)-1).Draw(t, "tx")]
		if rapid.Bool().Draw(t, "treplace") && j < len(b) {
			return string(b[:j]) + x + string(b[j+1:]) // in place of one byte
		}
		return string(b[:j]) + x + string(b[j:])
	}
	hot := []byte("/?{}:, \t\n*[]\\|#$%\x00\xff")
	for i := 0; i < n; i++ {
		var c byte
		if rapid.Bool().Draw(t, "hot") {
			c = hot[rapid.IntRange(0, len(hot)-1).Draw(t, "hc")]
		} else {
			c = rapid.Byte().Draw(t, "c")
		}
		switch rapid.IntRange(0, 2).Draw(t, "op") {
		case 0:
			if len(b) > 0 {
				j := rapid.IntRange(0, len(b)-1).Draw(t, "j")
				b = append(b[:j:j], b[j+1:]...)
			}
		case 1:
			j := rapid.IntRange(0, len(b)).Draw(t, "j")
			b = append(b[:j:j], append([]byte{c}, b[j:]...)...)
		default:
			if len(b) > 0 {
				b[rapid.IntRange(0, len(b)-1).Draw(t, "j")] = c
			}
		}
	}
	return string(b)
}

func TestMutations(t *testing.T) {
	evid.Rapid(t, "string", 6000, 80000, func(t *rapid.T) {
		var base string
		switch rapid.IntRange(0, 2).Draw(t, "src") {
		case 0:
			base = seeds[rapid.IntRange(0, len(seeds)-1).Draw(t, "seed")]
		case 1:
			base = gen.Route(t, gen.RouteOpts{MaxSegs: 4, WildSpacing: true}).Source()
		default:
			base = string(rapid.SliceOfN(rapid.Byte(), 0, 12).Draw(t, "raw"))
		}
		s := mutate(t, base)
		c := mk(s)
		evid.Run(t, "string", c, func() evid.Outcome { return checkWithNeighbours(s) })
	})
}

// ---- (d) native fuzzing (thorough tier only; driven by the driver) ----------

func FuzzParse(f *testing.F) {
	for _, s := range seeds {
		f.Add(s)
	}
	for _, x := range tricky {
		f.Add("/" + x)
		f.Add("/{a" + x + "}")
		f.Add("/{a: /[a-z" + x + "]+/}")
	}
	f.Fuzz(func(t *testing.T, s string) {
		out := evid.Protect(func() evid.Outcome { return checkWithNeighbours(s) })
		if out.Violation != "" {
			t.Fatalf("VIOLATION-CASE %s\n%s", js(mk(s)), out.Violation)
		}
	})
}

// ---- replay ----------------------------------------------------------------

func TestReplay(t *testing.T) {
	evid.Replay(t, map[string]evid.ReplayFn{
		"string": func(raw json.RawMessage) evid.Outcome {
			var c Case
			if err := json.Unmarshal(raw, &c); err != nil {
				panic(err)
			}
			return checkWithNeighbours(c.str())
		},
		"pair": func(raw json.RawMessage) evid.Outcome {
			var c PairCase
			if err := json.Unmarshal(raw, &c); err != nil {
				panic(err)
			}
			return checkPair(c)
		},
		"derivation": func(raw json.RawMessage) evid.Outcome {
			var c DerivCase
			if err := json.Unmarshal(raw, &c); err != nil {
				panic(err)
			}
			return checkDerivation(c)
		},
	})
}
