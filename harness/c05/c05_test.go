// Package c05 decides property C05: once set-up has finished, concurrent
// requests are isolated (every response is the one the request gets when
// served alone) and no execution contains a data race on framework state.
// The package is built with -race; the driver treats a race report as a
// violation whose replay artefact is the round that was in flight.
package c05

import (
	"encoding/json"
	"fmt"
	"io"
	"math"
	"net/http"
	"os"
	"path/filepath"
	"runtime"
	"sort"
	"strings"
	"sync"
	"testing"

	"pgregory.net/rapid"

	"github.com/charmbracelet/log"

	"github.com/flamego/flamego"
	"github.com/flamego/flamego/inject"
	"github.com/flamego/flamego/verifharness/internal/evid"
	"github.com/flamego/flamego/verifharness/internal/rt"
)

const rule = "round = an application with 0..7 separately added middleware, routes of every kind (static via the shortcut, optional static, regex with user groups, placeholder, match-all with capture, header-constrained, a second application mounted below /mount whose outer handler writes after it is back, a directory without index file below Static that one round in eight is requested a hundred times, named routes whose handlers build URLs, two routes declared from one handler list and a shorter cut of it, Logger, Recovery, Renderer and Static (with ETags; plain files, a missing file, and a directory answered with its long index file) middleware, AutoHead on (some requests are HEAD), a route that renders JSON through the request-scoped Render service, a route that renders a value the encoder refuses and one whose encoding dawdles, a route whose handler panics, a route that reads the request body, yields and echoes it, a route answering through two return values with a dawdling before-function, Before handlers in front of the router (one passes, one answers some requests itself), an outer parent of the application injector holding a service the handlers resolve, a middleware that maps a per-request token read from a header, handlers that receive it by type and an application service through an interface it implements; some requests make the route's first handler note the token in the request's own parameter map, some are not-found after a partial match, some use a method the router has no table for; expected responses = every distinct request served alone by an instance that has served nothing else; instance B is fresh (nothing lazily cached yet) and is hit by 2..16 goroutines released together, each with its own list of 5..40 requests and runtime.Gosched() yields inside the handlers, under GOMAXPROCS in {2,4,16}. " +
	"Oracle: (1) every concurrent response (status, all response headers and body = route marker + echoed parameters + token + built URL) equals the response to the same request served alone; (2) the Go race detector reports nothing (binary built with -race, GORACE=halt_on_error=1; the driver turns a report into a violation). " +
	"non-trivial = a round in which >= 2 goroutines start with the same dynamic named route (the first use of lazily cached state is contended) and >= 3 kinds of route are hit; distinct by round text"

var assumptions = []string{
	"the harness does not own the Go scheduler: interleavings are sampled (goroutine count, request mix, yields, GOMAXPROCS), not enumerated; the race detector reports conflicting accesses that happen in a run even when the bad outcome does not",
	"set-up (routes, middleware, services) is finished before the first request, as the statement requires",
	"a failure found through the race detector reproduces only statistically",
}

// assetsDir holds a few files served by the Static middleware (with ETags).
var assetsDir string

func TestMain(m *testing.M) {
	dir, err := os.MkdirTemp("", "c05-assets-")
	if err != nil {
		panic(err)
	}
	assetsDir = dir
	for name, size := range map[string]int{"a.txt": 10, "b.txt": 2000, "c.css": 333, "d.js": 70000, "e.html": 1} {
		if err := os.WriteFile(filepath.Join(dir, name), []byte(strings.Repeat(name[:1], size)), 0o644); err != nil {
			panic(err)
		}
	}
	// a directory answered with its index file, which is long and differs from
	// place to place
	var idx strings.Builder
	for i := 0; i < 70000; i++ {
		fmt.Fprintf(&idx, "%08d\n", i)
	}
	if err := os.MkdirAll(filepath.Join(dir, "docs"), 0o755); err != nil {
		panic(err)
	}
	if err := os.WriteFile(filepath.Join(dir, "docs", "index.html"), []byte(idx.String()), 0o644); err != nil {
		panic(err)
	}
	// a directory without an index file: Static has nothing to send for it
	if err := os.MkdirAll(filepath.Join(dir, "bare"), 0o755); err != nil {
		panic(err)
	}
	if err := os.WriteFile(filepath.Join(dir, "bare", "x.txt"), []byte("x"), 0o644); err != nil {
		panic(err)
	}
	evid.AtExit(func() { _ = os.RemoveAll(dir) })
	evid.PersistInflight()
	evid.Main(m, "C05", rule, assumptions)
}

// Req is one request of the pool.
type Req struct {
	M     string `json:"m"`
	P     string `json:"p"`
	Token string `json:"token"`
	Hdr   string `json:"hdr,omitempty"` // value of X-Api (header-constrained routes)
	// HdrTwice: X-Api is sent three times (value, value, "trace").
	HdrTwice bool `json:"hdr_repeated,omitempty"`
	// Scratch: the first handler of the route notes the request's token in the
	// request's own parameter map (Params() hands out the map of this request).
	Scratch bool `json:"scratch,omitempty"`
	// OwnLog: a middleware in front maps a request-scoped *log.Logger for this request.
	OwnLog bool `json:"own_logger,omitempty"`
	// Before: "" | "pass" | "stop": the request carries a header a Before handler
	// looks at; "stop" makes it answer the request itself (204 and the token).
	Before string `json:"before,omitempty"`
}

type Round struct {
	Middleware int     `json:"middleware"` // separate Use calls before the token middleware
	Yields     int     `json:"yields"`
	Procs      int     `json:"gomaxprocs"`
	Pool       []Req   `json:"pool"`
	Lists      [][]int `json:"lists"` // per goroutine: indexes into the pool
	// Dev: development mode - the recovery page then shows the panic value,
	// which names the request it belongs to (only that line is compared: the
	// stack below it differs from run to run).
	Dev bool `json:"development,omitempty"`
}

type token struct{ v string }

// namer is resolved through an implementor registered on the application at
// set-up (the interface itself is never registered).
type namer interface{ Name() string }
type svc struct{ name string }

// outerSvc is registered only in a parent of the application's own injector
// (a process-wide container the application was put under).
type outerSvc struct{ v string }

func (s *svc) Name() string { return s.name }

// build makes one application; both instances of a round are built by the same code.
func build(r Round) *flamego.Flame {
	f := flamego.NewWithLogger(io.Discard)
	f.AutoHead(true) // every GET route below answers HEAD too
	// some requests bring a logger of their own (request scope): whoever takes a
	// *log.Logger by injection during such a request - the Logger middleware
	// first of all - must get that one
	// handlers in front of the router: they see every request and may end it
	f.Before(func(w http.ResponseWriter, r *http.Request) bool {
		if r.Header.Get("X-Before") == "stop" {
			w.Header().Set("X-Before-Token", r.Header.Get("X-Token"))
			w.WriteHeader(http.StatusNoContent)
			return true
		}
		return false
	})
	f.Before(func(w http.ResponseWriter, r *http.Request) bool {
		if r.Header.Get("X-Before") == "pass" {
			w.Header().Set("X-Before-Token", r.Header.Get("X-Token"))
		}
		return false
	})
	f.Use(func(c flamego.Context) {
		if tok := c.Request().Header.Get("X-Own-Log"); tok != "" {
			buf := &lockedBuf{}
			ownLogs.Store(tok, buf)
			c.Map(log.New(buf))
		}
	})
	f.Use(flamego.Logger(), flamego.Recovery(), flamego.Renderer(flamego.RenderOptions{JSONIndent: " "}))
	f.Use(flamego.Static(flamego.StaticOptions{Directory: assetsDir, Prefix: "/assets", SetETag: true}))
	f.Map(&svc{"svc-A"})
	global := inject.New()
	global.Map(&outerSvc{"outer-O"})
	f.SetParent(global)
	for i := 0; i < r.Middleware; i++ {
		f.Use(func(c flamego.Context) {}) // separate calls: the middleware slice may end up with spare capacity
	}
	f.Use(func(c flamego.Context) {
		c.Map(&token{c.Request().Header.Get("X-Token")})
	})
	yield := func() {
		for i := 0; i < r.Yields; i++ {
			runtime.Gosched()
		}
	}
	echo := func(marker, urlName string) []flamego.Handler {
		pre := func(c flamego.Context, t *token) {
			if c.Request().Header.Get("X-Scratch") != "" && len(c.Params()) > 1 {
				// (only where the route has binds: the map then holds this request's
				// values and cannot be shared; a route without binds may hand every
				// request the same read-only map, which nobody could tell)
				c.Params()["scratch"] = t.v
			}
			yield()
		}
		main := func(c flamego.Context, t *token, n namer, o *outerSvc) string {
			yield()
			ps := c.Params()
			keys := make([]string, 0, len(ps))
			for k := range ps {
				keys = append(keys, k)
			}
			sort.Strings(keys)
			var b strings.Builder
			b.WriteString(marker)
			for _, k := range keys {
				fmt.Fprintf(&b, "|%s=%s", k, ps[k])
			}
			b.WriteString("|token=" + t.v + "|svc=" + n.Name() + "|outer=" + o.v)
			if urlName != "" {
				var pairs []string
				for _, k := range keys {
					if k != "route" {
						pairs = append(pairs, k, ps[k])
					}
				}
				yield()
				b.WriteString("|url=" + c.URLPath(urlName, pairs...))
				b.WriteString("|urlopt=" + c.URLPath(urlName, append(pairs, "withOptional", "true")...))
			}
			return b.String()
		}
		return []flamego.Handler{pre, main}
	}
	// two routes declared from one handler list, the second from a shorter cut
	// of it (a table of handlers shared between routes)
	subList := append([]flamego.Handler{func(c flamego.Context) { yield() }}, echo("subfull", "")...)
	f.Get("/sub/full", subList...)
	f.Get("/sub/short", subList[:1]...)
	f.Get("/", echo("root", "")...)
	f.Get("/static/page", echo("static", "static")...).Name("static")
	f.Get("/opt/?tail", echo("optstatic", "optstatic")...).Name("optstatic")
	f.Get("/users/{name}", echo("user", "user")...).Name("user")
	f.Get("/members/{name}/?{tab}", echo("usertab", "usertab")...).Name("usertab")
	f.Get(`/commit/{sha: /[a-f0-9]{7,40}/}{ext: /(\.(patch|diff))?/}`, echo("commit", "commit")...).Name("commit")
	f.Get("/posts/{year: /[0-9]{4}/}-{month: /[0-9]{2}/}.html", echo("post", "post")...).Name("post")
	f.Get("/files/{paths: **, capture: 3}/raw", echo("raw", "raw")...).Name("raw")
	f.Get("/blob/{rest: **}", echo("blob", "blob")...).Name("blob")
	f.Get("/api/{v}", echo("api-v1", "")...).Headers("X-Api", "^v1$")
	f.Get("/api/{w}", echo("api-any", "")...)
	f.Routes("/multi/{id}", "GET,POST", echo("multi", "multi")...).Name("multi")
	// every request builds this URL from one and the same list of pairs, which
	// is the application's own (it has room to spare behind its last element)
	sharedPairs := append(make([]string, 0, 16), "name", "alice", "withOptional", "true", "tab", "keys")
	f.Get("/shared/{x}", func(c flamego.Context, t *token) string {
		yield()
		return "shared|" + c.URLPath("usertab", sharedPairs...) + "|token=" + t.v
	})
	f.Group("/g/{org}", func() {
		f.Combo("/r/{repo}", func(c flamego.Context) { yield() }).Get(echo("combo-get", "")...).Post(echo("combo-post", "")...)
	}, func(c flamego.Context) { yield() })
	// a route that renders through the request-scoped Render service and one
	// whose handler panics under Recovery (production mode: the body is constant)
	f.Get("/render/{what}", func(c flamego.Context) { yield() }, func(c flamego.Context, r flamego.Render, t *token) {
		yield()
		r.JSON(http.StatusAccepted, map[string]string{"what": c.Param("what"), "token": t.v})
	})
	f.Get("/panic/{why}", func(c flamego.Context) {
		yield()
		panic("boom " + c.Param("why"))
	})
	// a value the encoder refuses (whatever the renderer answers then, it
	// answers every such request alike) and a value whose encoding takes a while
	f.Get("/renderbad/{what}", func(r flamego.Render) {
		r.JSON(http.StatusOK, map[string]interface{}{"nan": math.NaN()})
	})
	f.Get("/renderslow/{what}", func(c flamego.Context, r flamego.Render, t *token) {
		r.JSON(http.StatusOK, slowJSON{c.Param("what") + "|" + t.v, yield})
	})
	// a handler that answers through two return values, with a function that
	// runs (and dawdles) before the status goes out
	f.Get("/pair/{x}", func(c flamego.Context, t *token) (int, string) {
		c.ResponseWriter().Before(func(flamego.ResponseWriter) { yield() })
		yield()
		return http.StatusCreated, "pair|" + c.Param("x") + "|token=" + t.v
	})
	// a handler that reads the request body, does something else and then uses
	// what it read
	f.Post("/echo/{x}", func(c flamego.Context, t *token) string {
		data, err := c.Request().Body().Bytes()
		yield()
		yield()
		return fmt.Sprintf("echo|%s|err=%v|token=%s", data, err, t.v)
	})
	// a second application mounted below a path of the first one: it is handed
	// the writer and the request of the outer request, whose chain goes on
	// (and writes) when the mounted application is back
	admin := flamego.NewWithLogger(io.Discard)
	admin.Get("/mount/{x}", func(c flamego.Context) string {
		yield()
		return "mounted|" + c.Param("x") + "|token=" + c.Request().Header.Get("X-Token")
	})
	admin.NotFound(func(c flamego.Context) string {
		c.ResponseWriter().WriteHeader(http.StatusNotFound)
		return "mounted-notfound|token=" + c.Request().Header.Get("X-Token")
	})
	f.Any("/mount/{**}", func(c flamego.Context, t *token) {
		c.Next()
		yield()
		_, _ = c.ResponseWriter().Write([]byte("|outer-after=" + t.v))
	}, admin.ServeHTTP)
	f.NotFound(func(c flamego.Context, t *token) string {
		c.ResponseWriter().WriteHeader(http.StatusNotFound)
		return "notfound|token=" + t.v
	})
	return f
}

// slowJSON encodes to its text, taking its time.
type slowJSON struct {
	text  string
	yield func()
}

func (s slowJSON) MarshalJSON() ([]byte, error) {
	s.yield()
	b, err := json.Marshal(s.text)
	s.yield()
	return b, err
}

// ownLogs: token -> what was written to the logger that request brought along.
var ownLogs sync.Map

type lockedBuf struct {
	mu sync.Mutex
	b  strings.Builder
}

func (l *lockedBuf) Write(p []byte) (int, error) {
	l.mu.Lock()
	defer l.mu.Unlock()
	return l.b.Write(p)
}

func (l *lockedBuf) String() string {
	l.mu.Lock()
	defer l.mu.Unlock()
	return l.b.String()
}

type resp struct {
	status  int
	body    string
	ownLog  string // "started=<n> completed=<n>" for a request that brought its own logger
	headers string // every response header, sorted
	escaped string // a panic that left ServeHTTP
}

func serve(f *flamego.Flame, q Req) (r resp) {
	h := http.Header{}
	h.Set("X-Token", q.Token)
	if q.Hdr != "" {
		h.Set("X-Api", q.Hdr)
		if q.HdrTwice {
			// the field sent three times (how several values are read is the
			// matcher's business; alone or under load it reads them alike)
			h.Add("X-Api", q.Hdr)
			h.Add("X-Api", "trace")
		}
	}
	if q.Before != "" {
		h.Set("X-Before", q.Before)
	}
	if q.Scratch {
		h.Set("X-Scratch", "1")
	}
	if q.OwnLog {
		h.Set("X-Own-Log", q.Token)
	}
	spy := rt.NewSpy()
	defer func() {
		// nothing may escape ServeHTTP (Recovery is installed, and routing itself
		// never panics): if something does, it is this request's outcome
		if p := recover(); p != nil {
			r = resp{escaped: fmt.Sprint(p)}
		}
	}()
	hreq := rt.NewRequest(q.M, q.P, h)
	if q.M == "POST" && strings.HasPrefix(q.P, "/echo/") {
		hreq.Body = io.NopCloser(strings.NewReader(strings.Repeat(q.Token+";", 30)))
	}
	f.ServeHTTP(spy, hreq)
	var hs []string
	for k, vs := range spy.H {
		hs = append(hs, k+": "+strings.Join(vs, " | "))
	}
	sort.Strings(hs)
	body := string(spy.Body)
	if i := strings.Index(body, "<title>"); i >= 0 && spy.Status() == http.StatusInternalServerError {
		// the development recovery page: the title names the panic value, the
		// stack trace below it is not comparable between runs
		if j := strings.Index(body[i:], "</title>"); j >= 0 {
			body = body[i : i+j]
		}
	} else if spy.Status() == http.StatusInternalServerError && strings.Contains(body, "goroutine ") {
		// a recovery page with a stack but without a title element: only whether
		// it shows this request's panic text
		if i := strings.Index(body, "boom "); i >= 0 {
			body = "stack page showing " + strings.FieldsFunc(body[i+5:]+" ", func(r rune) bool { return r == ' ' || r == '<' || r == '\n' || r == '"' || r == '&' })[0]
		} else {
			body = "stack page"
		}
	}
	r = resp{status: spy.Status(), body: body, headers: strings.Join(hs, "\n")}
	if q.OwnLog {
		if v, ok := ownLogs.LoadAndDelete(q.Token); ok {
			text := v.(*lockedBuf).String()
			r.ownLog = fmt.Sprintf("started=%d completed=%d", strings.Count(text, "Started"), strings.Count(text, "Completed"))
			if text == "" {
				r.ownLog = "nothing logged"
			}
		} else {
			r.ownLog = "no logger registered"
		}
	}
	return r
}

func clip(s string) string {
	if len(s) > 300 {
		return s[:300] + "..."
	}
	return s
}

func kindOf(body string) string {
	if i := strings.Index(body, "|"); i >= 0 {
		return body[:i]
	}
	return body
}

func checkRound(r Round) (out evid.Outcome) {
	old := runtime.GOMAXPROCS(r.Procs)
	defer runtime.GOMAXPROCS(old)
	if r.Dev {
		flamego.SetEnv(flamego.EnvTypeDev)
	} else {
		flamego.SetEnv(flamego.EnvTypeProd) // the recovery page is then the same for every panic
	}
	defer flamego.SetEnv(flamego.EnvTypeDev)
	// expected: every distinct request served alone, by an instance that has
	// served nothing else (so nothing an earlier request left behind can taint it)
	b := build(r)
	want := make([]resp, len(r.Pool))
	for i, q := range r.Pool {
		want[i] = serve(build(r), q)
		if q.OwnLog && q.Before != "stop" && want[i].ownLog == "nothing logged" && want[i].escaped == "" {
			// the comparison below holds an implementation against itself; that the
			// Logger middleware writes to the *log.Logger mapped for this request
			// (the nearest registration) is asserted here, on the request served alone
			return evid.Fail("own-logger-unused", "request %+v mapped a *log.Logger of its own before the Logger middleware, which wrote nothing to it (%s): the handler did not get its own request's injected value", q, want[i].ownLog)
		}
	}
	type bad struct {
		g, i int
		got  resp
	}
	var mu sync.Mutex
	var bads []bad
	var wg sync.WaitGroup
	start := make(chan struct{})
	for g, list := range r.Lists {
		wg.Add(1)
		go func(g int, list []int) {
			defer wg.Done()
			<-start
			for j, i := range list {
				// every request in flight carries a token of its own, so that two
				// requests for the same pool entry cannot be swapped unnoticed
				q := r.Pool[i]
				uniq := fmt.Sprintf("%s-g%d-%d", q.Token, g, j)
				q.Token = uniq
				got := serve(b, q)
				got.body = strings.ReplaceAll(got.body, uniq, r.Pool[i].Token)
				got.headers = strings.ReplaceAll(got.headers, uniq, r.Pool[i].Token)
				if got != want[i] {
					mu.Lock()
					bads = append(bads, bad{g, i, got})
					mu.Unlock()
				}
			}
		}(g, list)
	}
	close(start)
	wg.Wait()
	out.Sub = 0
	for _, l := range r.Lists {
		out.Sub += len(l)
	}
	if len(bads) > 0 {
		x := bads[0]
		return evid.Fail("isolation", "goroutine %d, request %+v: concurrent response %d %q (headers %q, own log %q, escaped panic %q) differs from the response when served alone %d %q (headers %q) (%d of %d responses differ)",
			x.g, r.Pool[x.i], x.got.status, clip(x.got.body), x.got.headers, x.got.ownLog, x.got.escaped, want[x.i].status, clip(want[x.i].body), want[x.i].headers, len(bads), out.Sub)
	}
	// classification
	kinds := map[string]bool{}
	firsts := map[string]int{}
	for _, l := range r.Lists {
		for j, i := range l {
			k := kindOf(want[i].body)
			kinds[k] = true
			if j == 0 && strings.Contains(want[i].body, "|url=") && k != "static" && k != "optstatic" {
				firsts[k]++
			}
		}
	}
	contended := false
	for _, n := range firsts {
		if n >= 2 {
			contended = true
		}
	}
	if contended && len(kinds) >= 3 {
		out.NonTrivial = true
		out.Classes = append(out.Classes, "contended-first-use")
	}
	if r.Middleware == 3 || r.Middleware >= 5 {
		out.Classes = append(out.Classes, "middleware-slice-with-spare-capacity")
	}
	hdrs := map[string]string{}
	samePath, index := false, false
	for _, l := range r.Lists {
		for _, i := range l {
			q := r.Pool[i]
			if strings.HasPrefix(q.P, "/api/") {
				if h, ok := hdrs[q.P]; ok && (h == "v1") != (q.Hdr == "v1") {
					samePath = true
				}
				hdrs[q.P] = q.Hdr
			}
			if strings.HasPrefix(q.P, "/assets/docs") {
				index = true
			}
		}
	}
	if samePath {
		out.Classes = append(out.Classes, "same-path-with-different-constrained-header-values")
	}
	if index {
		out.Classes = append(out.Classes, "directory-index-file")
	}
	out.Classes = append(out.Classes, fmt.Sprintf("goroutines:%d", (len(r.Lists)+3)/4*4))
	return out
}

// ---- generator -------------------------------------------------------------------------

var seg = []string{"a", "bob", "x.y", "12", "%41", "main.go", "src", "lib", "deep"}

func genReq(t *rapid.T, n int) Req {
	s := func() string { return seg[rapid.IntRange(0, len(seg)-1).Draw(t, "seg")] }
	q := Req{M: "GET", Token: fmt.Sprintf("tok-%d", n)}
	switch rapid.IntRange(0, 22).Draw(t, "rk") {
	case 22:
		q.P = []string{"/mount/" + s(), "/mount/" + s(), "/mount/" + s() + "/deeper"}[rapid.IntRange(0, 2).Draw(t, "mnt")]
	case 0:
		q.P = "/"
	case 1:
		q.P = "/static/page"
	case 2:
		q.P = []string{"/opt", "/opt/tail"}[rapid.IntRange(0, 1).Draw(t, "o")]
	case 3:
		q.P = "/users/" + s()
	case 4:
		q.P = []string{"/members/" + s() + "/" + s(), "/members/" + s()}[rapid.IntRange(0, 1).Draw(t, "mt")]
	case 5:
		q.P = "/commit/" + []string{"368c7b2", "0123456789abcdef", "368c7b2.patch", "abcdef0.diff", "zzz"}[rapid.IntRange(0, 4).Draw(t, "c")]
	case 6:
		q.P = "/posts/" + []string{"2021-05.html", "1999-12.html", "21-05.html"}[rapid.IntRange(0, 2).Draw(t, "p")]
	case 7:
		k := rapid.IntRange(1, 4).Draw(t, "nf")
		var parts []string
		for i := 0; i < k; i++ {
			parts = append(parts, s())
		}
		q.P = "/files/" + strings.Join(parts, "/") + "/raw"
	case 8:
		k := rapid.IntRange(1, 3).Draw(t, "nb")
		var parts []string
		for i := 0; i < k; i++ {
			parts = append(parts, s())
		}
		q.P = "/blob/" + strings.Join(parts, "/")
	case 9:
		// (few paths, so that the same path comes with different header values)
		q.P = "/api/" + seg[rapid.IntRange(0, 2).Draw(t, "apiseg")]
		q.Hdr = []string{"", "v1", "v2"}[rapid.IntRange(0, 2).Draw(t, "h")]
		q.HdrTwice = q.Hdr != "" && rapid.Bool().Draw(t, "htwice")
	case 10:
		q.P = "/multi/" + s()
		q.M = []string{"GET", "POST", "PUT"}[rapid.IntRange(0, 2).Draw(t, "mm")]
	case 11:
		q.P = "/g/" + s() + "/r/" + s()
		q.M = []string{"GET", "POST"}[rapid.IntRange(0, 1).Draw(t, "cm")]
	case 19:
		q.P = "/echo/" + s()
		q.M = "POST"
	case 20:
		q.P = []string{"/renderbad/", "/renderslow/", "/renderslow/"}[rapid.IntRange(0, 2).Draw(t, "rb")] + s()
	case 21:
		q.P = "/pair/" + s()
	case 12:
		q.P = "/nosuch/" + s()
	case 18:
		q.P = "/shared/" + s()
	case 16:
		q.P = "/render/" + s()
	case 17:
		q.P = "/panic/" + s() + "-" + q.Token
	case 13:
		q.P = "//users//" + s()
	case 15:
		// a file served by the Static middleware (with its ETag)
		q.P = "/assets/" + []string{"a.txt", "b.txt", "c.css", "d.js", "e.html", "nosuch.txt", "docs/", "docs/", "docs", "bare/", "bare/x.txt", "bare"}[rapid.IntRange(0, 11).Draw(t, "asset")]
	case 14:
		// not found after part of the path was matched (and captured) on the way
		q.P = []string{"/users/" + s() + "/extra", "/members/" + s() + "/" + s() + "/more", "/multi/" + s() + "/x", "/files/" + s() + "/a/b/c/d/raw", "/g/" + s() + "/r", "/posts/2021-" + s()}[rapid.IntRange(0, 5).Draw(t, "pm")]
	default:
		q.P = "/users/" + s()
	}
	q.Scratch = rapid.IntRange(0, 3).Draw(t, "scratch") == 0
	q.Before = []string{"", "", "", "", "", "pass", "pass", "stop"}[rapid.IntRange(0, 7).Draw(t, "before")]
	q.OwnLog = rapid.IntRange(0, 3).Draw(t, "ownlog") == 0
	if q.M == "GET" && rapid.IntRange(0, 5).Draw(t, "head") == 0 {
		q.M = "HEAD"
	}
	if rapid.IntRange(0, 9).Draw(t, "oddmethod") == 0 {
		// a method the router has no table for (answered by the not-found chain)
		q.M = []string{"PROPFIND", "PURGE", "get", "M-SEARCH", "REPORT"}[rapid.IntRange(0, 4).Draw(t, "om")]
	}
	return q
}

func genRound(t *rapid.T) Round {
	r := Round{
		Middleware: rapid.IntRange(0, 7).Draw(t, "middleware"),
		Yields:     rapid.IntRange(0, 3).Draw(t, "yields"),
		Procs:      []int{2, 4, 16}[rapid.IntRange(0, 2).Draw(t, "procs")],
		Dev:        rapid.IntRange(0, 2).Draw(t, "dev") == 0,
	}
	n := rapid.IntRange(4, 30).Draw(t, "pool")
	for i := 0; i < n; i++ {
		r.Pool = append(r.Pool, genReq(t, i))
	}
	if rapid.Bool().Draw(t, "apipair") {
		// on purpose: one path of the header-constrained route, once with a value
		// that satisfies the constraint and once with one that does not
		p := "/api/" + seg[rapid.IntRange(0, len(seg)-1).Draw(t, "pairseg")]
		r.Pool = append(r.Pool,
			Req{M: "GET", P: p, Token: fmt.Sprintf("tok-%d", n), Hdr: "v1"},
			Req{M: "GET", P: p, Token: fmt.Sprintf("tok-%d", n+1), Hdr: []string{"", "v2"}[rapid.IntRange(0, 1).Draw(t, "pairhdr")]})
		n += 2
	}
	if rapid.IntRange(0, 3).Draw(t, "subpair") == 0 {
		// on purpose: both routes that were declared from one handler list
		r.Pool = append(r.Pool,
			Req{M: "GET", P: "/sub/full", Token: fmt.Sprintf("tok-%d", n)},
			Req{M: "GET", P: "/sub/short", Token: fmt.Sprintf("tok-%d", n+1)})
		n += 2
	}
	if rapid.IntRange(0, 2).Draw(t, "indexpair") == 0 {
		// on purpose: the directory index requested by several goroutines
		r.Pool = append(r.Pool,
			Req{M: "GET", P: "/assets/docs/", Token: fmt.Sprintf("tok-%d", n)},
			Req{M: "GET", P: "/assets/docs/", Token: fmt.Sprintf("tok-%d", n+1)})
		n += 2
	}
	if rapid.IntRange(0, 2).Draw(t, "mountpair") == 0 {
		// on purpose: the mounted application, from several goroutines
		r.Pool = append(r.Pool,
			Req{M: "GET", P: "/mount/" + seg[rapid.IntRange(0, len(seg)-1).Draw(t, "mountseg")], Token: fmt.Sprintf("tok-%d", n)},
			Req{M: "GET", P: "/mount/" + seg[rapid.IntRange(0, len(seg)-1).Draw(t, "mountseg2")], Token: fmt.Sprintf("tok-%d", n+1)})
		n += 2
	}
	hammer := -1
	if rapid.IntRange(0, 7).Draw(t, "hammer") == 0 {
		// on purpose: one request that Static cannot serve (a directory without
		// index file), a hundred times over the life of the instance
		r.Pool = append(r.Pool, Req{M: "GET", P: "/assets/bare/", Token: fmt.Sprintf("tok-%d", n)})
		hammer = n
		n++
	}
	g := rapid.IntRange(2, 16).Draw(t, "goroutines")
	same := rapid.IntRange(0, 2).Draw(t, "samefirst") > 0
	first := rapid.IntRange(0, n-1).Draw(t, "first")
	for i := 0; i < g; i++ {
		k := rapid.IntRange(5, 40).Draw(t, "len")
		list := make([]int, 0, k)
		for j := 0; j < k; j++ {
			list = append(list, rapid.IntRange(0, n-1).Draw(t, "idx"))
		}
		if same {
			list[0] = first
		}
		if hammer >= 0 {
			for j := 0; j < 100/g+1; j++ {
				list = append(list, hammer)
			}
			// (and something else behind it, which must still be answered)
			list = append(list, rapid.IntRange(0, n-1).Draw(t, "afterhammer"))
		}
		r.Lists = append(r.Lists, list)
	}
	return r
}

func TestProp(t *testing.T) {
	evid.Rapid(t, "round", 300, 3000, func(t *rapid.T) {
		r := genRound(t)
		evid.Run(t, "round", r, func() evid.Outcome { return checkRound(r) })
	})
}

func TestReplay(t *testing.T) {
	evid.Replay(t, map[string]evid.ReplayFn{
		"round": func(raw json.RawMessage) evid.Outcome {
			var r Round
			if err := json.Unmarshal(raw, &r); err != nil {
				panic(err)
			}
			// a schedule-dependent failure reproduces only statistically: repeat
			for i := 0; i < 50; i++ {
				if o := checkRound(r); o.Violation != "" {
					return o
				}
			}
			return evid.Outcome{}
		},
	})
}
