// Package c01 decides property C01: a request is dispatched iff some route of
// its method admits the path, and the winner follows the documented priority.
package c01

import (
	"encoding/json"
	"fmt"
	"strings"
	"testing"

	"pgregory.net/rapid"

	"github.com/flamego/flamego/verifharness/internal/evid"
	"github.com/flamego/flamego/verifharness/internal/gen"
	"github.com/flamego/flamego/verifharness/internal/model"
	"github.com/flamego/flamego/verifharness/internal/rt"
)

const rule = "case = a valid route set (1..8 routes over a shared segment pool, random order, 1..2 methods) plus 1..12 requests (the root route and the root path included), about three in four built from an instance of a registered route and mutated (in a third of the cases some routes are registered only after the first requests have been served, and everything is requested again), one in four also carrying an over-escaped URL.RawPath that decodes to the same path; " +
	"each request is matched by route.Tree.Match and served through Flame.ServeHTTP and compared with the reference matcher (flat route list, documented priority) and with a priority-free brute force for the iff. " +
	"non-trivial = a case with a request admitted by >=2 route forms, or decided after the reference matcher abandoned an admitting alternative, or with a mid-route match-all spanning >=2 segments, or won by the short form of an optional route; distinct by case text. " +
	"metamorphic part (no reference matcher): adding an unrelated route, swapping adjacent registrations of different rank, registering routes for another method and extra leading slashes change no outcome. small-scope part: every ordered set of <=2 (thorough: <=3) compatible routes from a fixed pool of 13 x every path of <=4 segments over 5 values"

var assumptions = []string{
	"route sets contain only registrations the registration model classifies MUST_ACCEPT (C08 decides registration itself)",
	"request paths contain no newline (the documentation does not say whether an in-segment {name} admits it)",
	"reference matcher internal/model/match.go is written from the statement of C01",
	"a bare {name} inside a segment that has other elements admits any non-empty text (the documentation's examples; whether it may be empty is not said - about one request in a thousand would be decided differently)",
	"'the winner is decided segment by segment; among equally ranked alternatives the earlier-registered wins': the alternatives at one position are the distinct segment texts, and a text counts as registered when the first route that goes through it was - also when that route itself does not admit the request (a reading that ranks whole routes instead differs on about one request in ten thousand)",
}

func TestMain(m *testing.M) { evid.Main(m, "C01", rule, assumptions) }

// Case is a route set and requests.
type Case struct {
	Regs []rt.Reg `json:"routes"`
	Reqs []rt.Req `json:"requests"`
	// Late are routes registered after every request has been served once; the
	// requests (and LateReqs, built from the new routes) are served after that.
	Late     []rt.Reg `json:"registered_after_serving,omitempty"`
	LateReqs []rt.Req `json:"requests_afterwards,omitempty"`
}

func checkCase(c Case) evid.Outcome {
	out := evid.Outcome{Sub: len(c.Reqs)}
	trees, _, errAt, err := rt.Trees(c.Regs)
	if err != nil {
		// registration is C08's business; the set is not "successfully registered"
		out.Excluded = 1
		out.Classes = append(out.Classes, "registration-rejected")
		_ = errAt
		return out
	}
	app, _, perr := rt.NewApp(c.Regs)
	if perr != nil {
		return evid.Fail("tree-vs-flame-registration", "route.AddRoute accepted the set but Flame registration panicked: %v", perr)
	}
	if len(c.Late) > 0 {
		// first everything with the routes known so far, then the rest
		first := c
		first.Late, first.LateReqs = nil, nil
		if o := checkCase(first); o.Violation != "" || o.Excluded >= len(first.Reqs) {
			return o
		}
		// now on one instance: serve, register more, serve again
		for _, q := range c.Reqs {
			if tree := trees[q.M]; tree != nil {
				tree.Match(q.P, nil)
			}
			app.Serve(q)
		}
		for k, g := range c.Late {
			// (that a well-formed route is still taken after serving is C08's to
			// demand: C01 speaks of sets that were registered successfully)
			if err := rt.AddToTrees(trees, g, len(c.Regs)+k); err != nil {
				out.Excluded = 1
				out.Classes = append(out.Classes, "late-registration-refused")
				return out
			}
			if perr := app.Register(len(c.Regs)+k, g); perr != nil {
				out.Excluded = 1
				out.Classes = append(out.Classes, "late-registration-refused")
				return out
			}
		}
		c.Regs = append(append([]rt.Reg(nil), c.Regs...), c.Late...)
		c.Reqs = append(append([]rt.Req(nil), c.Reqs...), c.LateReqs...)
		out.Sub = len(c.Reqs)
		out.NonTrivial = true
		out.Classes = append(out.Classes, "routes-registered-after-serving")
	}
	compiled := map[string][]model.MRoute{}
	for _, q := range c.Reqs {
		if strings.Contains(q.P, "\n") {
			out.Excluded++
			continue
		}
		routes, ok := compiled[q.M]
		if !ok {
			routes = rt.Compiled(c.Regs, q.M)
			compiled[q.M] = routes
		}
		want := model.Match(routes, q.P, nil, nil)
		adm := model.Admitting(routes, q.P, nil, nil)
		if want.Found != (len(adm) > 0) {
			panic(fmt.Sprintf("harness: reference matcher and brute force disagree on %q over %v", q.P, c.Regs))
		}
		// classification
		if len(adm) >= 2 {
			out.NonTrivial = true
			out.Classes = append(out.Classes, "multi-admit")
		}
		if want.Found && want.Backtracked > 0 {
			out.NonTrivial = true
			out.Classes = append(out.Classes, "backtracked")
		}
		if want.Found {
			out.Classes = append(out.Classes, "found")
			if want.Form == model.Short {
				out.NonTrivial = true
				out.Classes = append(out.Classes, "optional-short")
			}
			for i, k := range want.Align {
				if k > 1 && i < len(want.Align)-1 {
					out.NonTrivial = true
					out.Classes = append(out.Classes, "matchall-mid-grown")
				}
			}
		} else {
			out.Classes = append(out.Classes, "not-found")
		}
		if strings.HasSuffix(q.P, "/") {
			out.Classes = append(out.Classes, "trailing-slash")
		}
		if strings.HasPrefix(q.P, "//") {
			out.Classes = append(out.Classes, "leading-slashes")
		}
		if q.Wire != "" {
			out.Classes = append(out.Classes, "over-escaped-on-the-wire")
		}

		// tree level
		tree := trees[q.M]
		var gotRoute string
		gotFound := false
		if tree != nil {
			leaf, _, ok := tree.Match(q.P, nil)
			if ok {
				gotFound = true
				gotRoute = leaf.Route()
			}
		}
		if o := compare("Tree.Match", c, q, want, adm, gotFound, gotRoute); o.Violation != "" {
			o.NonTrivial, o.Classes, o.Sub = out.NonTrivial, out.Classes, out.Sub
			return o
		}
		// Flame level
		hit := app.Serve(q)
		if hit.Panic != nil {
			return evid.Fail("serve-panic", "ServeHTTP panicked on %s %q: %v", q.M, q.P, hit.Panic)
		}
		fFound := hit.Handler >= 0
		fRoute := ""
		if fFound {
			fRoute = rt.Deriv(c.Regs[hit.Handler].R).Canon()
			if want.Found && hit.Handler != want.Route.Index {
				fRoute = fmt.Sprintf("%s (registration #%d)", fRoute, hit.Handler)
			}
		}
		if fFound == hit.NotFound {
			return evid.Fail("both-or-neither", "%s %q: route handler ran=%v, not-found ran=%v", q.M, q.P, fFound, hit.NotFound)
		}
		if o := compare("Flame.ServeHTTP", c, q, want, adm, fFound, fRoute); o.Violation != "" {
			o.NonTrivial, o.Classes, o.Sub = out.NonTrivial, out.Classes, out.Sub
			return o
		}
	}
	return out
}

func compare(where string, c Case, q rt.Req, want model.Result, adm []struct {
	Route *model.MRoute
	Form  model.Form
}, gotFound bool, gotRoute string) evid.Outcome {
	if gotFound != want.Found {
		if want.Found {
			return evid.Fail("missed", "%s: %s %q not dispatched although %d route form(s) admit it (expected winner %q); routes %s",
				where, q.M, q.P, len(adm), want.Route.Canon, show(c.Regs))
		}
		return evid.Fail("spurious", "%s: %s %q dispatched to %q although no route admits it; routes %s", where, q.M, q.P, gotRoute, show(c.Regs))
	}
	if want.Found && gotRoute != want.Route.Canon {
		return evid.Fail("wrong-winner", "%s: %s %q dispatched to %q, documented priority gives %q; routes %s",
			where, q.M, q.P, gotRoute, want.Route.Canon, show(c.Regs))
	}
	return evid.Outcome{}
}

func show(regs []rt.Reg) string {
	var parts []string
	for _, g := range regs {
		parts = append(parts, g.M+" "+g.R)
	}
	return "[" + strings.Join(parts, " ; ") + "]"
}

func TestProp(t *testing.T) {
	evid.Rapid(t, "routeset", 4000, 60000, func(t *rapid.T) {
		c := genRouteSetCase(t)
		evid.Run(t, "routeset", c, func() evid.Outcome { return checkCase(c) })
	})
}

// FuzzRouteSet drives the same generator and the same check from the native
// fuzzer (thorough tier): the bytes are rapid's source of draws, so coverage
// of the tree code steers which route sets and requests are tried next.
func FuzzRouteSet(f *testing.F) {
	evid.FuzzSeeds(f, 24, 4096)
	f.Fuzz(rapid.MakeFuzz(func(t *rapid.T) {
		c := genRouteSetCase(t)
		evid.FuzzRun(t, c, func() evid.Outcome { return checkCase(c) })
	}))
}

func genRouteSetCase(t *rapid.T) Case {
	methods := []string{"GET"}
	if rapid.IntRange(0, 4).Draw(t, "twomethods") == 0 {
		methods = []string{"GET", "POST", "*"}
	}
	opts := gen.SetOpts{Methods: methods}
	if evid.Thorough() {
		// deeper and larger sets in the thorough tier
		opts.MaxRoutes, opts.PoolSize, opts.Route.MaxSegs = 12, 8, 6
	}
	regs, _ := gen.RouteSet(t, opts)
	// registration order is part of the case: shuffle by drawing a permutation
	regs = rapid.Permutation(regs).Draw(t, "order")
	regs = revalidate(regs)
	c := Case{Regs: regs, Reqs: gen.Requests(t, regs, 12)}
	if len(regs) >= 2 && rapid.IntRange(0, 2).Draw(t, "late") == 0 {
		// some of the routes only arrive after the others have been serving
		k := rapid.IntRange(1, len(regs)-1).Draw(t, "latefrom")
		c = Case{Regs: regs[:k], Reqs: gen.Requests(t, regs[:k], 8), Late: regs[k:], LateReqs: gen.Requests(t, regs, 10)}
	}
	return c
}

// TestWide stresses sibling ordering with 13..30 siblings under one node.
func TestWide(t *testing.T) {
	evid.Rapid(t, "routeset", 600, 10000, func(t *rapid.T) {
		regs := gen.WideSet(t)
		regs = rapid.Permutation(regs).Draw(t, "order")
		regs = revalidate(regs)
		c := Case{Regs: regs, Reqs: gen.Requests(t, regs, 16)}
		evid.Run(t, "routeset", c, func() evid.Outcome {
			o := checkCase(c)
			o.Classes = append(o.Classes, "wide-set")
			return o
		})
	})
}

// ---- metamorphic relations (no reference matcher involved) ---------------------
//
// They guard against a misconception shared by the reference matcher and the
// implementation: each relation follows from the statement alone.
//
//   M1  adding a route whose first segment is a fresh static literal leaves the
//       outcome of every path that does not start with that literal unchanged;
//   M2  swapping two ADJACENT registrations whose segment kinds differ at the
//       first segment where their texts differ changes no outcome (rank decides
//       before registration order does);
//   M3  registering routes for another method changes no outcome;
//   M4  extra leading slashes change no outcome.

type MetaCase struct {
	Regs  []rt.Reg `json:"routes"`
	Reqs  []rt.Req `json:"requests"`
	Swap  int      `json:"swap"`  // M2: swap registrations Swap and Swap+1 when allowed
	Extra rt.Reg   `json:"extra"` // M1: the unrelated route
	Other []rt.Reg `json:"other"` // M3: routes registered for POST
}

// outcomes serves the requests through a Flame instance built from the
// registrations (the per-method separation that M3 is about lives in the
// router, not in the trees) and names the route that answered each of them.
func outcomes(regs []rt.Reg, reqs []rt.Req) ([]string, bool) {
	app, _, perr := rt.NewApp(regs)
	if perr != nil {
		return nil, false
	}
	var out []string
	for _, q := range reqs {
		hit := app.Serve(q)
		switch {
		case hit.Panic != nil:
			out = append(out, fmt.Sprintf("panic: %v", hit.Panic))
		case hit.Handler >= 0:
			out = append(out, rt.Deriv(regs[hit.Handler].R).Canon())
		default:
			out = append(out, "not-found")
		}
	}
	return out, true
}

func firstDifferingKinds(a, b model.Route) (model.Kind, model.Kind, bool) {
	for i := 0; i < len(a.Segs) && i < len(b.Segs); i++ {
		if a.Segs[i].Canon() != b.Segs[i].Canon() {
			ka, _, _ := a.Segs[i].Classify()
			kb, _, _ := b.Segs[i].Classify()
			// a final optional segment also contributes a shorter form: keep clear of it
			if a.Segs[i].Optional || b.Segs[i].Optional {
				return 0, 0, false
			}
			return ka, kb, true
		}
	}
	return 0, 0, false
}

func checkMeta(c MetaCase) (out evid.Outcome) {
	base, ok := outcomes(c.Regs, c.Reqs)
	if !ok {
		out.Excluded = 1
		return out
	}
	out.Sub = len(c.Reqs)
	cmp := func(rel string, regs []rt.Reg, reqs []rt.Req) evid.Outcome {
		got, ok := outcomes(regs, reqs)
		if !ok {
			// the transformed set cannot be registered: nothing was compared
			return evid.Outcome{Classes: []string{"unregistrable"}}
		}
		for i := range got {
			if got[i] != base[i] {
				return evid.Fail("meta-"+rel, "relation %s: %s %q goes to %q with routes %s but to %q with routes %s", rel, c.Reqs[i].M, c.Reqs[i].P, base[i], show(c.Regs), got[i], show(regs))
			}
		}
		return evid.Outcome{}
	}
	// M1
	if c.Extra.R != "" {
		lit := rt.Deriv(c.Extra.R).Segs[0].Elems[0].Lit
		var reqs []rt.Req
		var keep []int
		for i, q := range c.Reqs {
			if segs := model.SplitPath(q.P); segs[0] != lit {
				reqs = append(reqs, q)
				keep = append(keep, i)
			}
		}
		regs := append(append([]rt.Reg(nil), c.Regs...), c.Extra)
		if got, ok := outcomes(regs, reqs); ok {
			for j, i := range keep {
				if got[j] != base[i] {
					return evid.Fail("meta-M1", "adding the unrelated route %q changes %s %q from %q to %q; routes %s", c.Extra.R, c.Reqs[i].M, c.Reqs[i].P, base[i], got[j], show(c.Regs))
				}
			}
			out.Classes = append(out.Classes, "M1")
		}
	}
	// M2
	if c.Swap >= 0 && c.Swap+1 < len(c.Regs) && c.Regs[c.Swap].M == c.Regs[c.Swap+1].M {
		a, b := rt.Deriv(c.Regs[c.Swap].R), rt.Deriv(c.Regs[c.Swap+1].R)
		if ka, kb, ok := firstDifferingKinds(a, b); ok && ka != kb {
			regs := append([]rt.Reg(nil), c.Regs...)
			regs[c.Swap], regs[c.Swap+1] = regs[c.Swap+1], regs[c.Swap]
			if o := cmp("M2", regs, c.Reqs); o.Violation != "" {
				return o
			} else if len(o.Classes) > 0 {
				out.Classes = append(out.Classes, "M2-unregistrable")
			} else {
				out.NonTrivial = true
				out.Classes = append(out.Classes, "M2")
			}
		}
	}
	// M3
	if len(c.Other) > 0 {
		regs := append(append([]rt.Reg(nil), c.Regs...), c.Other...)
		if o := cmp("M3", regs, c.Reqs); o.Violation != "" {
			return o
		} else if len(o.Classes) > 0 {
			out.Classes = append(out.Classes, "M3-unregistrable")
		} else {
			out.Classes = append(out.Classes, "M3")
		}
	}
	// M4
	var slashed []rt.Req
	for _, q := range c.Reqs {
		slashed = append(slashed, rt.Req{M: q.M, P: "//" + q.P})
	}
	if o := cmp("M4", c.Regs, slashed); o.Violation != "" {
		return o
	}
	out.Classes = append(out.Classes, "M4")
	for _, b := range base {
		if b != "not-found" {
			out.NonTrivial = true
		}
	}
	return out
}

func TestMetamorphic(t *testing.T) {
	evid.Rapid(t, "metamorphic", 2500, 40000, func(t *rapid.T) {
		pool := gen.SegPool(t, 6, false)
		regs, _ := gen.RouteSet(t, gen.SetOpts{Route: gen.RouteOpts{SegmentPool: pool}})
		c := MetaCase{Regs: regs, Reqs: gen.Requests(t, regs, 10), Swap: -1}
		if len(regs) >= 2 {
			c.Swap = rapid.IntRange(0, len(regs)-2).Draw(t, "swap")
		}
		if rapid.Bool().Draw(t, "extra") {
			c.Extra = rt.Reg{M: "GET", R: "/zzfresh" + []string{"", "/{any}", "/{rest: **}", "/?opt"}[rapid.IntRange(0, 3).Draw(t, "extrashape")]}
		}
		if rapid.Bool().Draw(t, "other") {
			other, _ := gen.RouteSet(t, gen.SetOpts{Methods: []string{"POST"}, MaxRoutes: 4, Route: gen.RouteOpts{SegmentPool: pool}})
			c.Other = other
		}
		evid.Run(t, "metamorphic", c, func() evid.Outcome { return checkMeta(c) })
	})
}

// revalidate drops registrations that the permutation made invalid (validity
// depends on order only through duplicates/clashes, which are symmetric, so
// this normally keeps everything).
func revalidate(regs []rt.Reg) []rt.Reg {
	g := model.NewRegistrar()
	var out []rt.Reg
	for _, r := range regs {
		d := rt.Deriv(r.R)
		ok := true
		for _, m := range model.ExpandMethod(r.M) {
			if v, _ := g.Check(m, d); v != model.MustAccept {
				ok = false
			}
		}
		if !ok {
			continue
		}
		for _, m := range model.ExpandMethod(r.M) {
			g.Add(m, d)
		}
		out = append(out, r)
	}
	return out
}

// ---- small-scope exhaustive part ---------------------------------------------

var smallPool = []string{
	"/", "/a", "/a/b", "/{x}", "/{x}/b", "/{n: /[0-9]+/}", "/{n: /[0-9]+/}/b",
	"/{p: **}", "/{p: **}/b", "/a/{q: **, capture: 2}", "/a/?b", "/{x}/?{y}", "/{w: /[a-z]+/}/{v}",
}

var smallVals = []string{"a", "b", "1", "c", ""}

func TestSmallScope(t *testing.T) {
	k, n := evid.Shard()
	bulk := evid.NewBulk("small-scope")
	var paths []string
	var rec func(prefix []string, depth int)
	rec = func(prefix []string, depth int) {
		if depth > 0 {
			paths = append(paths, "/"+strings.Join(prefix, "/"))
		}
		if depth == 4 {
			return
		}
		for _, v := range smallVals {
			rec(append(prefix, v), depth+1)
		}
	}
	rec(nil, 0)
	maxSet := 2
	if evid.Thorough() {
		maxSet = 3
	}
	ord := 0
	var sets [][]int
	var build func(cur []int)
	build = func(cur []int) {
		if len(cur) > 0 {
			sets = append(sets, append([]int(nil), cur...))
		}
		if len(cur) == maxSet {
			return
		}
		for i := range smallPool {
			dup := false
			for _, j := range cur {
				if i == j {
					dup = true
				}
			}
			if !dup {
				build(append(cur, i))
			}
		}
	}
	build(nil)
	for _, set := range sets {
		ord++
		if ord%n != k {
			continue
		}
		var regs []rt.Reg
		for _, i := range set {
			regs = append(regs, rt.Reg{M: "GET", R: smallPool[i]})
		}
		if len(revalidate(regs)) != len(regs) {
			continue
		}
		var reqs []rt.Req
		for _, p := range paths {
			reqs = append(reqs, rt.Req{M: "GET", P: p})
		}
		c := Case{Regs: regs, Reqs: reqs}
		evid.Inflight("routeset", c)
		out := evid.Protect(func() evid.Outcome { return checkCaseTreeOnly(c) })
		evid.InflightDone()
		bulk.Add(show(regs), out.NonTrivial, out.Classes...)
		if out.Violation != "" {
			// shrink the request list to the failing one for the replay file
			for _, q := range reqs {
				c1 := Case{Regs: regs, Reqs: []rt.Req{q}}
				if o := evid.Protect(func() evid.Outcome { return checkCaseTreeOnly(c1) }); o.Violation != "" {
					evid.BulkFail(t, "routeset", c1, o)
					return
				}
			}
			evid.BulkFail(t, "routeset", c, out)
			return
		}
	}
	bulk.Done(fmt.Sprintf("every ordered set of <=%d compatible routes from %d pool routes x %d paths (<=4 segments over %q)", maxSet, len(smallPool), len(paths), smallVals))
}

// checkCaseTreeOnly is checkCase without the Flame-level pass (the small-scope
// enumeration runs ~1M matches).
func checkCaseTreeOnly(c Case) evid.Outcome {
	out := evid.Outcome{}
	trees, _, _, err := rt.Trees(c.Regs)
	if err != nil {
		out.Excluded = 1
		return out
	}
	routes := rt.Compiled(c.Regs, "GET")
	for _, q := range c.Reqs {
		want := model.Match(routes, q.P, nil, nil)
		adm := model.Admitting(routes, q.P, nil, nil)
		if want.Found != (len(adm) > 0) {
			panic("harness: reference matcher and brute force disagree")
		}
		if len(adm) >= 2 || want.Backtracked > 0 {
			out.NonTrivial = true
		}
		leaf, _, ok := trees["GET"].Match(q.P, nil)
		gotRoute := ""
		if ok {
			gotRoute = leaf.Route()
		}
		if o := compare("Tree.Match", c, q, want, adm, ok, gotRoute); o.Violation != "" {
			return o
		}
	}
	return out
}

func TestReplay(t *testing.T) {
	evid.Replay(t, map[string]evid.ReplayFn{
		"routeset": func(raw json.RawMessage) evid.Outcome {
			var c Case
			if err := json.Unmarshal(raw, &c); err != nil {
				panic(err)
			}
			return checkCase(c)
		},
		"metamorphic": func(raw json.RawMessage) evid.Outcome {
			var c MetaCase
			if err := json.Unmarshal(raw, &c); err != nil {
				panic(err)
			}
			return checkMeta(c)
		},
	})
}
