// Command hashmerge prints the number of distinct 64-bit hashes found in the
// files given as arguments (little-endian uint64 records, as written by
// internal/evid). The driver uses it to count distinct non-trivial cases
// across shards without holding them in a Python set.
package main

import (
	"encoding/binary"
	"fmt"
	"os"
	"sort"
)

func main() {
	var all []uint64
	for _, p := range os.Args[1:] {
		data, err := os.ReadFile(p)
		if err != nil {
			continue
		}
		for i := 0; i+8 <= len(data); i += 8 {
			all = append(all, binary.LittleEndian.Uint64(data[i:]))
		}
	}
	sort.Slice(all, func(i, j int) bool { return all[i] < all[j] })
	n := 0
	for i, h := range all {
		if i == 0 || h != all[i-1] {
			n++
		}
	}
	fmt.Println(n)
}
