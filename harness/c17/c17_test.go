// Package c17 decides property C17: JSON, XML, Binary and PlainText send the
// given status, the matching Content-Type (with the configured charset) and a
// body that decodes back to the given value; the renderer is available to
// every handler after the Renderer middleware.
package c17

import (
	"bytes"
	gocontext "context"
	"encoding/json"
	"encoding/xml"
	"fmt"
	"io"
	"mime"
	"reflect"
	"strconv"
	"strings"
	"testing"

	"pgregory.net/rapid"

	"github.com/flamego/flamego"
	"github.com/flamego/flamego/verifharness/internal/evid"
	"github.com/flamego/flamego/verifharness/internal/gen"
	"github.com/flamego/flamego/verifharness/internal/rt"
)

const rule = "case = options (Charset, JSONIndent, XMLIndent; or none) x Renderer placed as application middleware, group handler or route handler (optionally with another, differently configured Renderer in front of it as application middleware) x optionally an earlier request of the same application that rendered an unencodable value of the same Go type (a map or list holding a channel; its own outcome is not judged) x 1..3 later handlers of which one renders x a render call: JSON of a randomly nested value (maps, slices, strings with <>&, numbers, booleans, null) of a tagged struct, or of a byte slice / named byte slice / json.RawMessage, XML of a struct with attributes, nested, optional and repeated elements and a field that encodes itself through pointer-receiver marshalers (JSON and XML alike; the value is passed by pointer), or of a value whose encoding is empty (empty / nil slice, nil pointer), Binary of arbitrary bytes, PlainText of arbitrary text (payloads now and then 0.5..70 KB), with a status in 100..999, for GET / POST / HEAD; optionally the rendering handler first calls Next() (with or without the Logger middleware right behind it), cancels its own request, or serves a nested request through the same application (which renders something else) before rendering its own response, optionally a middleware in front or the handler itself has already put some other Content-Type on the response; with the Renderer as application middleware also a request of method GET / POST / PROPFIND / get / Put that ends in a rendering not-found handler, and optionally a route whose rendering handler is started by the second Next() of a middleware in front of the Renderer. " +
	"Oracle: the spy writer got exactly the given status once and before the body; Content-Type is the documented media type with the configured (default utf-8) charset; Binary / PlainText bodies are verbatim; the JSON body is valid JSON laid out with the configured indentation and json.Unmarshal of it is DeepEqual to the value; the XML body decodes into an equal struct and is indented iff an indentation is configured; every handler after the middleware receives a Render. " +
	"non-trivial = a non-200 status, a non-default option, a value nested >= 2 deep, a nested request, a Content-Type set before the render call, or a HEAD request; distinct by case text"

var assumptions = []string{
	"values are encodable (statement): strings are valid UTF-8 without characters XML cannot represent, floats are finite",
	"empty slices are generated as nil (encoding/xml and encoding/json cannot tell them apart after decoding)",
	"with several Renderer middlewares in a chain a handler gets the Render of the nearest one in front of it (C04: the nearest registration wins)",
	"a Renderer is configured by the option values it was given when it was made: changing the caller's variable afterwards changes nothing",
}

func TestMain(m *testing.M) { evid.Main(m, "C17", rule, assumptions) }

type XAddr struct {
	City string `xml:"city" json:"city"`
	Zip  string `xml:"zip,attr" json:"zip"`
}

type XPerson struct {
	XMLName xml.Name `xml:"person" json:"-"`
	ID      int      `xml:"id,attr" json:"id"`
	Name    string   `xml:"name" json:"name"`
	Emails  []string `xml:"email" json:"emails"`
	Addr    *XAddr   `xml:"addr" json:"addr"`
	Notes   []XAddr  `xml:"notes>note" json:"notes"`
	Active  bool     `xml:"active" json:"active,omitempty"`
	// a value kept in an unexported field and encoded by marshalers declared on
	// the pointer receiver: the standard encoders use them because the handler
	// passes a pointer to the struct
	Temp XTemp `xml:"temp" json:"temp"`
}

// XTemp encodes itself, through methods on the pointer receiver only.
type XTemp struct{ milli int64 }

func (t *XTemp) MarshalJSON() ([]byte, error) {
	return []byte(`{"milli":"` + strconv.FormatInt(t.milli, 10) + `"}`), nil
}

func (t *XTemp) UnmarshalJSON(b []byte) error {
	var v struct {
		Milli string `json:"milli"`
	}
	if err := json.Unmarshal(b, &v); err != nil {
		return err
	}
	n, err := strconv.ParseInt(v.Milli, 10, 64)
	t.milli = n
	return err
}

func (t *XTemp) MarshalText() ([]byte, error) {
	return []byte("m" + strconv.FormatInt(t.milli, 10)), nil
}

func (t *XTemp) UnmarshalText(b []byte) error {
	n, err := strconv.ParseInt(strings.TrimPrefix(string(b), "m"), 10, 64)
	t.milli = n
	return err
}

// XBlob is a document that is one long run of character data.
// XProblem is an encodable document whose type also has the methods of error
// and fmt.Stringer (an API problem / validation document).
type XProblem struct {
	Status int      `json:"status"`
	Title  string   `json:"title"`
	Fields []string `json:"fields,omitempty"`
}

func (p XProblem) Error() string  { return "problem: " + p.Title }
func (p XProblem) String() string { return "XProblem(" + p.Title + ")" }

type XBlob struct {
	XMLName xml.Name `xml:"blob"`
	Data    []byte   `xml:",chardata"`
}

type Case struct {
	Opts   *flamego.RenderOptions `json:"opts"`        // nil = Renderer() without options
	At     string                 `json:"renderer_at"` // use | group | route
	After  int                    `json:"handlers_after"`
	Which  int                    `json:"rendering_handler"`
	Kind   string                 `json:"kind"` // json | jsonstruct | xml | binary | text
	Status int                    `json:"status"`
	Method string                 `json:"method"`
	JSON   json.RawMessage        `json:"json,omitempty"`   // the value for kind json
	Person *XPerson               `json:"person,omitempty"` // for jsonstruct / xml
	Bytes  string                 `json:"bytes,omitempty"`  // quoted, for binary / text
	Nested bool                   `json:"nested,omitempty"`
	// PreCT: something set a Content-Type on the response before the render
	// call: "" nobody, "first" a middleware in front of everything, "handler"
	// the rendering handler itself.
	PreCT string `json:"content_type_set_before,omitempty"`
	// Empty (kind xmlempty): an encodable value whose XML encoding is empty:
	// "slice" = []XAddr{}, "nilslice" = []XAddr(nil), "nilptr" = (*XPerson)(nil).
	Empty string `json:"empty_value,omitempty"`
	// Outer (renderer at group / route): the application also has a Renderer of
	// its own, installed with Use and configured differently (another charset
	// and other indentations); the handlers get the nearest one's Render.
	Outer bool `json:"another_renderer_in_front,omitempty"`
	// SharedSlice (with options): the options are the element of a slice the
	// application reuses: after the Renderer under test was built from it, the
	// element is changed and another Renderer is built from the same slice.
	SharedSlice bool `json:"options_slice_reused,omitempty"`
	// Env: "" (development, the default), production, test.
	Env string `json:"env,omitempty"`
	// NFMethod (renderer as application middleware): the method of the request
	// that probes the not-found chain ("" = GET). No spelling of HEAD in another
	// letter case: whether "head" is the HEAD method is left open (as in C07), and
	// if it is, a response without body is right.
	NFMethod string `json:"not_found_probe_method,omitempty"`
	// Resume (renderer as application middleware): a middleware in front of the
	// Renderer calls Next() twice; on a second route the first handler writes
	// (the chain stops there) and the second one, which the second Next() starts
	// after the Renderer middleware has returned, renders.
	Resume bool `json:"chain_resumed_by_second_next,omitempty"`
	// Cancel: the rendering handler gives up its request (a deadline that
	// passed, a time-out middleware) and reports that through the renderer.
	Cancel bool `json:"request_cancelled_before_rendering,omitempty"`
	// AfterNext: the rendering handler calls Next() first (the handlers behind
	// it write nothing) and renders when that is back; LoggerBehind: the Logger
	// middleware stands right behind it.
	AfterNext    bool `json:"renders_after_next,omitempty"`
	LoggerBehind bool `json:"logger_behind_the_rendering_handler,omitempty"`
	// Unenc (kind json with a map or a list on top): an earlier request of the
	// same application rendered a value of the same Go type that cannot be
	// encoded (it holds a channel). What that request gets is not judged - the
	// statement speaks about encodable values - the request under test is.
	Unenc bool `json:"unencodable_value_of_the_same_type_rendered_before,omitempty"`
}

// unencodableTwin returns a value of v's dynamic type that the JSON encoder
// refuses, or nil when the type has no such value.
func unencodableTwin(v interface{}) interface{} {
	switch v.(type) {
	case map[string]interface{}:
		return map[string]interface{}{"ok": "text", "ch": make(chan int)}
	case []interface{}:
		return []interface{}{"text", func() {}}
	}
	return nil
}

func (c Case) value() interface{} {
	switch c.Kind {
	case "json":
		var v interface{}
		dec := json.NewDecoder(bytes.NewReader(c.JSON))
		if err := dec.Decode(&v); err != nil {
			panic(err)
		}
		return v
	case "jsonbytes":
		// values the standard encoder treats specially: a byte slice (base64
		// text), a named byte slice, an already encoded document
		switch c.Empty {
		case "named":
			return namedBytes(c.raw())
		case "rawmessage":
			return json.RawMessage(`{"k": [1, 2, {"<a>": "b"}], "t":true}`)
		case "problem":
			// a document type that is an error (and a Stringer) as well: encodable
			// like any struct with exported fields
			return &XProblem{Status: 422, Title: c.raw(), Fields: []string{"a", c.raw()}}
		case "problemvalue":
			return XProblem{Status: 409, Title: c.raw()}
		case "problems":
			return []error{XProblem{Status: 1, Title: c.raw()}, &XProblem{Status: 2}}
		}
		return []byte(c.raw())
	case "jsonstruct", "xml":
		p := *c.Person
		p.XMLName = xml.Name{Local: "person"}
		return &p
	case "xmlblob":
		return &XBlob{XMLName: xml.Name{Local: "blob"}, Data: []byte(c.raw())}
	case "xmlempty":
		switch c.Empty {
		case "slice":
			return []XAddr{}
		case "nilslice":
			return []XAddr(nil)
		}
		return (*XPerson)(nil)
	}
	return nil
}

func (c Case) raw() string {
	s, err := strconv.Unquote(c.Bytes)
	if err != nil {
		panic(err)
	}
	return s
}

func checkCase(c Case) (out evid.Outcome) {
	// what is rendered does not depend on the mode the application runs in
	switch c.Env {
	case "production":
		flamego.SetEnv(flamego.EnvTypeProd)
	case "test":
		flamego.SetEnv(flamego.EnvTypeTest)
	}
	defer flamego.SetEnv(flamego.EnvTypeDev)
	if c.Env != "" {
		out.Classes = append(out.Classes, "env:"+c.Env)
	}
	f := flamego.NewWithLogger(io.Discard)
	var renderer flamego.Handler
	charset, jsonIndent, xmlIndent := "utf-8", "", ""
	if c.Opts != nil && c.SharedSlice {
		list := []flamego.RenderOptions{*c.Opts}
		renderer = flamego.Renderer(list...)
		list[0] = flamego.RenderOptions{Charset: "KOI8-R", JSONIndent: "\t\t\t", XMLIndent: "        "}
		_ = flamego.Renderer(list...)
		list[0] = flamego.RenderOptions{}
	} else if c.Opts != nil {
		renderer = flamego.Renderer(*c.Opts)
	} else {
		renderer = flamego.Renderer()
	}
	if c.Opts != nil {
		if c.Opts.Charset != "" {
			charset = c.Opts.Charset
		}
		jsonIndent, xmlIndent = c.Opts.JSONIndent, c.Opts.XMLIndent
	}
	got := make([]bool, c.After)
	reqCtx, cancelReq := gocontext.WithCancel(gocontext.Background())
	defer cancelReq()
	var hs []flamego.Handler
	v := c.value()
	for i := 0; i < c.After; i++ {
		i := i
		hs = append(hs, func(ctx flamego.Context, r flamego.Render) {
			got[i] = r != nil
			if i != c.Which {
				return
			}
			if c.Nested {
				inner := rt.NewSpy()
				f.ServeHTTP(inner, rt.NewRequest("GET", prefix(c)+"/inner", nil))
				if inner.Status() != 202 || string(inner.Body) != "inner-text" {
					panic(fmt.Sprintf("nested request answered %v %q", inner.Codes, inner.Body))
				}
			}
			if c.AfterNext {
				ctx.Next()
			}
			if c.Cancel {
				cancelReq()
			}
			if c.PreCT == "handler" {
				ctx.ResponseWriter().Header().Set("Content-Type", "text/html; charset=utf-8")
			}
			switch c.Kind {
			case "json", "jsonstruct", "jsonbytes":
				r.JSON(c.Status, v)
			case "xml", "xmlempty", "xmlblob":
				r.XML(c.Status, v)
			case "binary":
				r.Binary(c.Status, []byte(c.raw()))
			case "text":
				r.PlainText(c.Status, c.raw())
			}
		})
	}
	if c.LoggerBehind && c.AfterNext {
		hs = append(hs[:c.Which+1:c.Which+1], append([]flamego.Handler{flamego.Logger()}, hs[c.Which+1:]...)...)
	}
	innerH := func(r flamego.Render) { r.PlainText(202, "inner-text") }
	twin := unencodableTwin(v)
	unencH := func(r flamego.Render) { r.JSON(200, twin) }
	if c.PreCT == "first" {
		f.Use(func(ctx flamego.Context) {
			ctx.ResponseWriter().Header().Set("Content-Type", "application/octet-stream")
		})
	}
	if c.Outer && c.At != "use" {
		f.Use(flamego.Renderer(flamego.RenderOptions{Charset: "KOI8-R", JSONIndent: "\t\t\t", XMLIndent: "        "}))
	}
	resumeRan := false
	switch c.At {
	case "use":
		if c.Resume {
			f.Use(func(ctx flamego.Context) {
				ctx.Next()
				ctx.Next()
			})
		}
		f.Use(renderer)
		f.Get("/resume",
			func(ctx flamego.Context) { _, _ = ctx.ResponseWriter().Write([]byte("first;")) },
			func(r flamego.Render) {
				resumeRan = true
				r.PlainText(202, "second")
			})
		f.Any("/r", hs...)
		f.Get("/inner", innerH)
		f.Get("/unenc", unencH)
		// the not-found chain runs after the application middleware as well
		f.NotFound(func(r flamego.Render) { r.PlainText(404, "nothing-here") })
	case "group":
		f.Group("/g", func() {
			f.Any("/r", hs...)
			f.Get("/inner", innerH)
			f.Get("/unenc", unencH)
		}, renderer)
	case "route":
		f.Any("/r", append([]flamego.Handler{renderer}, hs...)...)
		f.Get("/inner", renderer, innerH)
		f.Get("/unenc", renderer, unencH)
	}
	if c.Unenc && c.Kind == "json" && twin != nil {
		func() {
			defer func() { _ = recover() }()
			f.ServeHTTP(rt.NewSpy(), rt.NewRequest("GET", prefix(c)+"/unenc", nil))
		}()
		out.Classes = append(out.Classes, "unencodable-twin-rendered-before")
	}
	if c.At == "use" {
		nf := rt.NewSpy()
		var nfEscaped interface{}
		func() {
			defer func() { nfEscaped = recover() }()
			m := c.NFMethod
			if m == "" {
				m = "GET"
			}
			f.ServeHTTP(nf, rt.NewRequest(m, "/no/such/route", nil))
		}()
		if nfEscaped != nil || nf.Status() != 404 || string(nf.Body) != "nothing-here" {
			return evid.Fail("render-unavailable", "a not-found handler behind the Renderer middleware could not render (method %q): status %v body %q panic %v; %s", c.NFMethod, nf.Codes, nf.Body, nfEscaped, js(c))
		}
		if c.NFMethod != "" {
			out.Classes = append(out.Classes, "not-found-probe:"+c.NFMethod)
		}
		if c.Resume {
			rs := rt.NewSpy()
			var escaped interface{}
			func() {
				defer func() { escaped = recover() }()
				f.ServeHTTP(rs, rt.NewRequest("GET", "/resume", nil))
			}()
			// (whether the second Next() starts that handler is C03's business, and
			// what a render call adds to a response that has begun is not stated:
			// only that the Render it is given can be used)
			if escaped != nil {
				return evid.Fail("render-unavailable", "a handler that runs after the Renderer middleware - started by a second Next() of a middleware in front, after an earlier handler had written - could not use its Render: panic %v (body so far %q); %s", escaped, rs.Body, js(c))
			}
			if resumeRan {
				out.Classes = append(out.Classes, "chain-resumed-by-second-next")
			} else {
				out.Classes = append(out.Classes, "resume-not-started")
			}
		}
	}
	spy := rt.NewSpy()
	var escaped interface{}
	func() {
		defer func() { escaped = recover() }()
		f.ServeHTTP(spy, rt.NewRequest(c.Method, prefix(c)+"/r", nil).WithContext(reqCtx))
	}()
	desc := js(c)
	if escaped != nil {
		return evid.Fail("panic", "rendering panicked: %v; %s", escaped, desc)
	}
	for i := 0; i <= c.Which; i++ {
		if !got[i] {
			return evid.Fail("render-unavailable", "handler %d after the Renderer did not receive a Render; %s", i, desc)
		}
	}
	if len(spy.Codes) != 1 || spy.Codes[0] != c.Status {
		return evid.Fail("status", "status lines %v, want exactly [%d]; %s", spy.Codes, c.Status, desc)
	}
	if len(spy.Log) > 0 && spy.Log[0] != fmt.Sprintf("WH %d", c.Status) {
		return evid.Fail("order", "calls on the underlying writer %v: the status must come first; %s", spy.Log, desc)
	}
	var wantCT string
	var wantBody []byte
	switch c.Kind {
	case "json", "jsonstruct", "jsonbytes":
		wantCT = "application/json; charset=" + charset
		b, err := json.MarshalIndent(v, "", jsonIndent)
		if jsonIndent == "" {
			b, err = json.Marshal(v)
		}
		if err != nil {
			panic(err)
		}
		wantBody = append(b, '\n')
	case "xml":
		wantCT = "text/xml; charset=" + charset
		b, err := xml.MarshalIndent(v, "", xmlIndent)
		if xmlIndent == "" {
			b, err = xml.Marshal(v)
		}
		if err != nil {
			panic(err)
		}
		wantBody = b
	case "xmlblob":
		wantCT = "text/xml; charset=" + charset
	case "xmlempty":
		// the standard encoder writes nothing for these values (and reports no
		// error): the status and the content type are still due
		wantCT = "text/xml; charset=" + charset
		b, err := xml.Marshal(v)
		if err != nil || len(b) != 0 {
			panic(fmt.Sprintf("harness: %v %q", err, b))
		}
	case "binary":
		wantCT = "application/octet-stream"
		wantBody = []byte(c.raw())
	case "text":
		wantCT = "text/plain; charset=" + charset
		wantBody = []byte(c.raw())
	}
	// the matching media type with the configured charset; how the header is
	// spelled (blanks, case of the parameter name) is not fixed by the statement
	gotType, gotParams, perr := mime.ParseMediaType(spy.H.Get("Content-Type"))
	wantType, wantParams, _ := mime.ParseMediaType(wantCT)
	if perr != nil || gotType != wantType || !strings.EqualFold(gotParams["charset"], wantParams["charset"]) {
		return evid.Fail("content-type", "Content-Type %q, want %q; %s", spy.H.Get("Content-Type"), wantCT, desc)
	}
	// who drops the body of a HEAD response (the response writer, as flamego's
	// does, or the server underneath) is not this property's business: a HEAD
	// response without body bytes is fine, one with bytes is checked like GET
	head := c.Method == "HEAD" && len(spy.Body) == 0
	if c.Kind == "json" || c.Kind == "jsonstruct" || c.Kind == "jsonbytes" {
		// "via the standard encoder with the configured indentation": the body
		// must decode back (below) and be laid out with that indentation; how
		// characters are escaped and whether a newline ends it is not fixed
		if !head {
			body := bytes.TrimSuffix(spy.Body, []byte("\n"))
			var compact, laid bytes.Buffer
			if err := json.Compact(&compact, body); err != nil {
				return evid.Fail("json-invalid", "the JSON body %q is not valid JSON: %v; %s", clip(spy.Body), err, desc)
			}
			if jsonIndent == "" {
				laid = compact
			} else if err := json.Indent(&laid, compact.Bytes(), "", jsonIndent); err != nil {
				panic(err)
			}
			if !bytes.Equal(laid.Bytes(), body) {
				return evid.Fail("json-indent", "the JSON body %q is not laid out with indentation %q (expected layout %q); %s", clip(spy.Body), jsonIndent, clip(laid.Bytes()), desc)
			}
		}
	} else if c.Kind == "xml" {
		// decoded below; here only the layout: indented iff an indentation is
		// configured. An XML declaration in front and a newline at the very end
		// are neither (JSON bodies end with a newline too).
		if !head {
			doc := xmlDocument(spy.Body)
			indented := bytes.Contains(doc, []byte("\n"+xmlIndent+"<")) && xmlIndent != ""
			if xmlIndent != "" && !indented {
				return evid.Fail("xml-indent", "the XML body %q is not indented with %q; %s", clip(spy.Body), xmlIndent, desc)
			}
			if xmlIndent == "" && bytes.Contains(doc, []byte(">\n")) {
				return evid.Fail("xml-indent", "the XML body %q is indented although no indentation is configured; %s", clip(spy.Body), desc)
			}
		}
	} else if c.Kind == "xmlblob" {
		if !head {
			var back XBlob
			if err := xml.Unmarshal(spy.Body, &back); err != nil || !bytes.Equal(back.Data, []byte(c.raw())) {
				return evid.Fail("xml-roundtrip", "the XML body (%d bytes) of a document with %d bytes of character data does not decode back to it (err %v, %d bytes came back); %s", len(spy.Body), len(c.raw()), err, len(back.Data), clip([]byte(desc)))
			}
		}
	} else if c.Kind == "xmlempty" {
		if len(xmlDocument(spy.Body)) != 0 {
			return evid.Fail("body", "body %q for a value whose XML encoding is empty; %s", clip(spy.Body), desc)
		}
	} else if !head && !bytes.Equal(spy.Body, wantBody) {
		return evid.Fail("body", "body %q, want %q; %s", clip(spy.Body), clip(wantBody), desc)
	}
	// a Content-Length announced by the renderer must be the length of the body
	if cl := spy.H.Get("Content-Length"); cl != "" && !head {
		if n, err := strconv.Atoi(cl); err != nil || n != len(spy.Body) {
			return evid.Fail("content-length", "Content-Length %q but the body has %d bytes; %s", cl, len(spy.Body), desc)
		}
	}
	// decodes back to the value
	if !head {
		switch c.Kind {
		case "json":
			var back interface{}
			if err := json.Unmarshal(spy.Body, &back); err != nil || !reflect.DeepEqual(back, v) {
				return evid.Fail("json-roundtrip", "the JSON body decodes to %#v (err %v), the value was %#v; %s", back, err, v, desc)
			}
		case "jsonbytes":
			// the same document as the standard encoder makes of it, layout and
			// escaping style aside: both decode to the same value
			std, err := json.Marshal(v)
			if err != nil {
				panic(err)
			}
			var a, b interface{}
			if err := json.Unmarshal(std, &a); err != nil {
				panic(err)
			}
			if err := json.Unmarshal(spy.Body, &b); err != nil || !reflect.DeepEqual(a, b) {
				return evid.Fail("json-roundtrip", "the JSON body %q does not decode to what the standard encoder's document (%q) decodes to; %s", clip(spy.Body), clip(std), desc)
			}
		case "jsonstruct":
			var back XPerson
			if err := json.Unmarshal(spy.Body, &back); err != nil {
				return evid.Fail("json-roundtrip", "the JSON body does not decode: %v; %s", err, desc)
			}
			back.XMLName = xml.Name{Local: "person"}
			if !reflect.DeepEqual(&back, v) {
				return evid.Fail("json-roundtrip", "the JSON body decodes to %+v, the value was %+v; %s", back, v, desc)
			}
		case "xml":
			var back XPerson
			if err := xml.Unmarshal(spy.Body, &back); err != nil {
				return evid.Fail("xml-roundtrip", "the XML body does not decode: %v; %s", err, desc)
			}
			if !reflect.DeepEqual(&back, v) {
				return evid.Fail("xml-roundtrip", "the XML body decodes to %+v, the value was %+v; %s", back, v, desc)
			}
		}
	}
	// classification
	if c.Status != 200 {
		out.NonTrivial = true
		out.Classes = append(out.Classes, "non-200")
	}
	if c.Opts != nil && (c.Opts.Charset != "" || c.Opts.JSONIndent != "" || c.Opts.XMLIndent != "") {
		out.NonTrivial = true
		out.Classes = append(out.Classes, "non-default-option")
	}
	if c.Kind == "json" && depth(v) >= 2 {
		out.NonTrivial = true
		out.Classes = append(out.Classes, "nested-value")
	}
	if c.Nested {
		out.NonTrivial = true
		out.Classes = append(out.Classes, "nested-request")
	}
	if c.Method == "HEAD" {
		out.NonTrivial = true
		out.Classes = append(out.Classes, "head")
	}
	if c.PreCT != "" {
		out.NonTrivial = true
		out.Classes = append(out.Classes, "content-type-set-before")
	}
	if c.Outer && c.At != "use" {
		out.Classes = append(out.Classes, "another-renderer-in-front")
	}
	if c.SharedSlice && c.Opts != nil {
		out.Classes = append(out.Classes, "options-slice-reused")
	}
	out.Classes = append(out.Classes, "kind:"+c.Kind, "at:"+c.At)
	return out
}

func prefix(c Case) string {
	if c.At == "group" {
		return "/g"
	}
	return ""
}

func depth(v interface{}) int {
	switch x := v.(type) {
	case map[string]interface{}:
		d := 0
		for _, e := range x {
			if k := depth(e); k > d {
				d = k
			}
		}
		return d + 1
	case []interface{}:
		d := 0
		for _, e := range x {
			if k := depth(e); k > d {
				d = k
			}
		}
		return d + 1
	}
	return 0
}

func clip(b []byte) string {
	if len(b) > 200 {
		return string(b[:200]) + "..."
	}
	return string(b)
}

func js(v interface{}) string {
	b, _ := json.Marshal(v)
	return string(b)
}

// ---- generator -----------------------------------------------------------------------

var text = rapid.StringMatching(`[a-zA-Z0-9 <>&'"äé€/\\.,:;-]{0,12}`)

func genJSON(t *rapid.T, d int) interface{} {
	k := rapid.IntRange(0, 9).Draw(t, "jk")
	if d >= 3 && k < 4 {
		k += 4
	}
	switch {
	case k < 2:
		n := rapid.IntRange(0, 3).Draw(t, "nkeys")
		m := map[string]interface{}{}
		for i := 0; i < n; i++ {
			m[rapid.StringMatching(`[a-z<&]{1,4}`).Draw(t, "key")] = genJSON(t, d+1)
		}
		return m
	case k < 4:
		n := rapid.IntRange(0, 3).Draw(t, "nelem")
		s := make([]interface{}, 0, n)
		for i := 0; i < n; i++ {
			s = append(s, genJSON(t, d+1))
		}
		return s
	case k < 6:
		if rapid.IntRange(0, 4).Draw(t, "oddstr") == 0 {
			// characters JSON has to escape (and may escape in more than one way)
			return rapid.StringMatching(`[a-z\x{01}\x{08}\t\n\r"\\/\x{7f}\x{2028}\x{2029}\x{fffd}\x{1F600}]{0,8}`).Draw(t, "odd")
		}
		return bigText(t, "str")
	case k < 7:
		return float64(rapid.IntRange(-1000000, 1000000).Draw(t, "num"))
	case k < 8:
		return rapid.Float64Range(-1e9, 1e9).Draw(t, "float")
	case k < 9:
		return rapid.Bool().Draw(t, "bool")
	default:
		return nil
	}
}

// bigText is text, or now and then 0.5..70 KB of ASCII with markup characters.
func bigText(t *rapid.T, label string) string {
	s := text.Draw(t, label)
	if b := gen.Big(t, "a<b&c d"); len(b) > 7 {
		return b
	}
	return s
}

func genPerson(t *rapid.T) *XPerson {
	p := &XPerson{ID: rapid.IntRange(-5, 99999).Draw(t, "id"), Name: bigText(t, "name"), Active: rapid.Bool().Draw(t, "active")}
	p.Temp.milli = rapid.Int64Range(-3, 99999).Draw(t, "temp")
	for i, n := 0, rapid.IntRange(0, 3).Draw(t, "nemail"); i < n; i++ {
		p.Emails = append(p.Emails, text.Draw(t, "email"))
	}
	if rapid.Bool().Draw(t, "addr") {
		p.Addr = &XAddr{City: text.Draw(t, "city"), Zip: text.Draw(t, "zip")}
	}
	for i, n := 0, rapid.IntRange(0, 2).Draw(t, "nnotes"); i < n; i++ {
		p.Notes = append(p.Notes, XAddr{City: text.Draw(t, "ncity"), Zip: text.Draw(t, "nzip")})
	}
	return p
}

func genCase(t *rapid.T) Case {
	c := Case{
		At:     []string{"use", "group", "route"}[rapid.IntRange(0, 2).Draw(t, "at")],
		After:  rapid.IntRange(1, 3).Draw(t, "after"),
		Kind:   []string{"json", "json", "jsonstruct", "xml", "xml", "binary", "text", "xmlempty", "jsonbytes", "xmlblob"}[rapid.IntRange(0, 9).Draw(t, "kind")],
		Status: []int{200, 200, 201, 204, 304, 400, 404, 418, 500, 503, 100, 103, 999}[rapid.IntRange(0, 12).Draw(t, "status")],
		Method: []string{"GET", "GET", "POST", "HEAD"}[rapid.IntRange(0, 3).Draw(t, "method")],
		Nested: rapid.IntRange(0, 4).Draw(t, "nested") == 0,
		PreCT:  []string{"", "", "", "", "first", "handler"}[rapid.IntRange(0, 5).Draw(t, "prect")],
	}
	if rapid.IntRange(0, 5).Draw(t, "anystatus") == 0 {
		c.Status = rapid.IntRange(100, 999).Draw(t, "rawstatus")
	}
	c.Which = rapid.IntRange(0, c.After-1).Draw(t, "which")
	c.Outer = c.At != "use" && rapid.IntRange(0, 3).Draw(t, "outer") == 0
	c.Env = []string{"", "", "production", "test"}[rapid.IntRange(0, 3).Draw(t, "env")]
	c.Cancel = rapid.IntRange(0, 5).Draw(t, "cancel") == 0
	c.AfterNext = rapid.IntRange(0, 4).Draw(t, "afternext") == 0
	c.LoggerBehind = c.AfterNext && rapid.Bool().Draw(t, "loggerbehind")
	if c.At == "use" {
		c.NFMethod = []string{"", "", "PROPFIND", "get", "POST", "Put"}[rapid.IntRange(0, 5).Draw(t, "nfmethod")]
		c.Resume = rapid.IntRange(0, 2).Draw(t, "resume") == 0
	}
	if rapid.IntRange(0, 3).Draw(t, "opts") > 0 {
		c.Opts = &flamego.RenderOptions{
			Charset:    []string{"", "", "ISO-8859-1", "gbk", "ascii", "shift_jis", "euc-kr", "tis-620", "utf-16", "charset", "hz-gb-2312"}[rapid.IntRange(0, 10).Draw(t, "charset")],
			JSONIndent: []string{"", "", "  ", "\t"}[rapid.IntRange(0, 3).Draw(t, "jindent")],
			XMLIndent:  []string{"", "", "  ", "\t"}[rapid.IntRange(0, 3).Draw(t, "xindent")],
		}
		c.SharedSlice = rapid.IntRange(0, 2).Draw(t, "sharedslice") == 0
	}
	switch c.Kind {
	case "json":
		raw, err := json.Marshal(genJSON(t, 0))
		if err != nil {
			panic(err)
		}
		c.JSON = raw
		c.Unenc = rapid.IntRange(0, 3).Draw(t, "unenc") == 0
	case "jsonbytes":
		c.Empty = []string{"bytes", "named", "rawmessage", "problem", "problemvalue", "problems"}[rapid.IntRange(0, 5).Draw(t, "jbk")]
		c.Bytes = strconv.QuoteToASCII(string(rapid.SliceOfN(rapid.Byte(), 1, 24).Draw(t, "jbytes")))
	case "xmlblob":
		n := []int{10, 4000, 33000, 40000, 70000, 100000}[rapid.IntRange(0, 5).Draw(t, "blobsize")]
		c.Bytes = strconv.QuoteToASCII(strings.Repeat("blob", n/4))
	case "xmlempty":
		c.Empty = []string{"slice", "nilslice", "nilptr"}[rapid.IntRange(0, 2).Draw(t, "emptyk")]
	case "jsonstruct", "xml":
		c.Person = genPerson(t)
	case "binary":
		c.Bytes = strconv.QuoteToASCII(gen.Big(t, string(rapid.SliceOfN(rapid.Byte(), 0, 40).Draw(t, "bytes"))))
	case "text":
		if rapid.Bool().Draw(t, "fmt") {
			c.Bytes = strconv.QuoteToASCII(gen.Big(t, rapid.StringMatching(`[a-z%sdvq<>&\n ]{0,16}`).Draw(t, "fmtext")))
		} else {
			c.Bytes = strconv.QuoteToASCII(string(rapid.SliceOfN(rapid.Byte(), 0, 24).Draw(t, "tbytes")))
		}
	}
	return c
}

func TestProp(t *testing.T) {
	evid.Rapid(t, "render", 4000, 200000, func(t *rapid.T) {
		c := genCase(t)
		evid.Run(t, "render", c, func() evid.Outcome { return checkCase(c) })
	})
}

func TestReplay(t *testing.T) {
	evid.Replay(t, map[string]evid.ReplayFn{
		"render": func(raw json.RawMessage) evid.Outcome {
			var c Case
			if err := json.Unmarshal(raw, &c); err != nil {
				panic(err)
			}
			return checkCase(c)
		},
	})
}

type namedBytes []byte

// xmlDocument strips an optional XML declaration and surrounding white space.
func xmlDocument(b []byte) []byte {
	b = bytes.TrimSpace(b)
	if bytes.HasPrefix(b, []byte("<?xml")) {
		if i := bytes.Index(b, []byte("?>")); i >= 0 {
			b = bytes.TrimSpace(b[i+2:])
		}
	}
	return b
}
