#!/bin/bash
# tools/seedmatrix.sh - re-confirm every seed under /verif/seeded against the
# current /repo and re-run the checks recorded in its meta.json (the ones that
# were run when it was first evaluated). One line per seed; details land in
# seeded/<name>/meta.json. VERIF_WORK keeps the scratch output away from .work.
root=$(cd "$(dirname "$0")/.." && pwd)   # works from a worktree of /verif too
cd "$root"
export VERIF_WORK=${VERIF_WORK:-$root/.work2}
for d in seeded/*/; do
  name=$(basename "$d")
  [ -n "$1" ] && [[ "$name" != $1 ]] && continue
  checks=$(python3 -c "import json,sys; m=json.load(open('$d/meta.json')); print(' '.join(m.get('checks',{}).keys()) or m.get('property',''))")
  race=""; [[ "$checks" == *C05* ]] && race=1
  DEMO_RACE=$race python3 tools/evalseed.py "$root/seeded/$name" "$name" $checks 2>&1 | head -1
done
python3 tools/seedmeta.py >/dev/null
