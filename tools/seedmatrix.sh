#!/bin/bash
# tools/seedmatrix.sh - re-confirm every seed under /verif/seeded against the
# current /repo and re-run the checks that are expected to catch it.
# Output: one line per seed; details land in seeded/<name>/meta.json.
cd /verif
declare -A EXTRA=( [C07-v1]="C11 C03" [C03-v1]="C03 C11" [C03-v2]="C03 C13" [C11-v1]="C11 C03" [C17-v1]="C17 C13" )
for d in seeded/*/; do
  name=$(basename "$d"); id=${name%%-*}
  checks=${EXTRA[$name]:-$id}
  race=""; [ "$id" = "C05" ] && race=1
  DEMO_RACE=$race python3 tools/evalseed.py "/verif/seeded/$name" "$name" $checks 2>&1 | head -1
done
python3 tools/seedmeta.py >/dev/null
