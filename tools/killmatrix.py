#!/usr/bin/env python3
"""Renders the kill matrix of /verif/seeded/*/meta.json as a markdown table and
splices it into DESIGN.md between the KILLMATRIX markers."""
import json, os, glob
VERIF = os.path.dirname(os.path.dirname(os.path.abspath(__file__)))
rows = []
for d in sorted(glob.glob(os.path.join(VERIF, "seeded", "*"))):
    mp = os.path.join(d, "meta.json")
    if not os.path.exists(mp):
        continue
    m = json.load(open(mp))
    valid = m.get("demo_passes_without_patch") and m.get("demo_fails_with_patch") and m.get("suite_passes_with_patch")
    checks = m.get("checks", {})
    caught = [k for k, v in checks.items() if v.get("caught")]
    missed = [k for k, v in checks.items() if not v.get("caught")]
    rows.append((m["name"], m.get("property", ""), "yes" if valid else "NO", ", ".join(caught) or "-", ", ".join(missed) or "-", m.get("needs", "")[:170], m.get("source", "")[:40]))
out = ["| seed | property | confirmed (suite passes, demo fails only with it) | caught by | run but not caught by | what it needs to manifest |", "|---|---|---|---|---|---|"]
for r in rows:
    out.append("| %s | %s | %s | %s | %s | %s |" % r[:6])
table = "\n".join(out)
p = os.path.join(VERIF, "DESIGN.md")
s = open(p).read()
a, b = "<!-- KILLMATRIX:BEGIN -->", "<!-- KILLMATRIX:END -->"
if a in s and b in s:
    s = s[: s.index(a) + len(a)] + "\n" + table + "\n" + s[s.index(b):]
    open(p, "w").write(s)
print(table)
