#!/usr/bin/env python3
"""Renders the kill matrix of /verif/seeded/*/meta.json as a markdown table and
splices it into DESIGN.md between the KILLMATRIX markers."""
import json, os, glob
VERIF = os.path.dirname(os.path.dirname(os.path.abspath(__file__)))
# planted changes that no check reports *by design*: the clause that caught them
# was found to demand more than the statement (DESIGN.md sections 11 and 14), or
# the change only touches something the statement leaves open
OUTSIDE = {
 "C15-v2": "which mode counts when it is switched between construction and request is open (second review)",
 "r3-T5-v2": "which mode counts when it is switched between construction and request is open (second review)",
 "r5-C09-v1": "how several values of one header field are read is open (second review); repetitions are generated only where every reading agrees",
 "r5-C10-v1": "only the harness' own writing into Params() of a bind-less route exposed it (second review)",
 "r6-C05-v1": "only the harness' own writing into Params() of a bind-less route exposed it (second review)",
 "r5-C18-v2": "who owns the list QueryStrings returns is not said (second review)",
 "r6-C10-v2": "whether method 'get' is the method GET is open (second review)",
 "r8-C07-v2": "whether method 'get' is the method GET is open (second review)",
 "r9-C13-v2": "concurrent use of one ResponseWriter is outside 'every sequence of operations' (second review)",
 "r12-C09-v2": "the same header named twice in one Headers() call, in different letter case: not classified",
 "r13-C07-v2": "the same header named twice in one Headers() call, in different letter case: not classified",
 "r13-C02-v2": "what a capture limit with a leading zero means is not said",
 "r13-C01-v1": "needs a refused registration: C01 speaks of registered sets (C08 reports it)",
 "r13-C13-v2": "needs a before-function that panics: excluded in C13 (C15 reports it)",
 "r13-C11-v2": "which half of a refused Get under AutoHead stands is the implementation's business (third review)",
 "r13-C18-v1": "a query changed after an accessor has read it: an implementation may parse the query once per request (third review)",
 "r14-C15-v1": "a recovery that waits for the end of the request body is slow, not wrong; the body of the case ends after 300 ms (third review)",
 "r13-C03-v2": "whether an informational status counts as 'written' is C13's to say (third review; C13 reports it)",
 "r14-C03-v2": "whether a Write of no bytes counts as 'written' is C13's to say (third review; C13 reports it)",
 "r21-C18-v1": "what a regex bind made of several groups captures is decided in the tree, before any accessor runs: C18 sends its values through a placeholder route (C02 and C01 report it)",
 "r21-C11-v1": "shows only after a refused Any: which part of a refused declaration stands is the implementation's business (third review, as r13-C11-v2; C08 allows a refused `*` registration to serve in the trees where nothing forbids it)",
 "r21-C11-v2": "Routes(path, \"*\") is nowhere said to be a method string of Routes, and the other half needs a refused declaration (third review)",
 "r21-C03-v1": "needs a body write that fails below: whether that counts as 'written' is C13's to say (third review; C13 and C14 report it)",
 "r21-C03-v2": "needs a ReturnHandler mapped during the request: none in C03 (C14, whose subject it is, reports it - as C14-v2 of the first round)",
 "r22-C01-v1": "needs AutoHead: C01 registers flat route sets without it (C11 and C10 report it)",
 "r22-C07-v2": "method tables created while serving: a crash under concurrency only (C05 reports it: concurrent map writes)",
 "r22-C09-v1": "a scratch slice shared by the requests that pass one matcher: wrong verdicts under concurrency only (C05 reports it)",
 "r22-C17-v2": "a pooled encode buffer handed back too early: another request's document under concurrency only (C05 reports it)",
 "r22-C05-v1": "needs a file system that refuses to open files under load (EMFILE): a request that is refused differs from the one served alone by the fault itself; faults of the file system are not generated in C05",
 "r22-C05-v2": "changes the stack part of the development page only: C05 compares the line that shows the panic value, because the stack below it differs between a goroutine of the round and the serial run anyway",
 "r20-C07-v2": "needs AutoHead: C07 declares flat routes without it (C11 and C10 report it)",
 "r18-C01-v1": "needs AutoHead: C01 registers flat route sets without it (C11 and C10 report it)",
 "r18-C05-v1": "a memo inside the injector keyed by struct type: applied by value and by pointer (C04, which does both, reports it without any concurrency)",
 "r18-C07-v1": "needs a handler that registers a route while its own request is being served: every statement takes set-up to be finished before requests arrive",
 "r18-C07-v2": "shows only when a handler writes into Params() of a route without binds: whose map that is was left open by the second review (as r6-C05-v1)",
 "r18-C17-v2": "a request of method `head` gets no body: whether a method in another letter case is the known method is left open (C07, third review) - an implementation that treats `head` as HEAD everywhere answers the same way; the probe that caught it was withdrawn",
 "r18-C18-v1": "which name a placeholder segment is bound under is decided in the tree: C18 sends its values through one placeholder route (C02 and C01 report it)",
 "r17-C05-v1": "a memo inside the injector keyed by the printed signature: C05 has no two handler types that print alike (C04, whose generator has them, reports it at once, without any concurrency)",
 "r17-C18-v1": "what a regex bind made of several groups captures is decided before any accessor runs: C18 sends its values through a placeholder route (C02, which generates such expressions, reports it)",
 "r16-C11-v1": "the defect shows through Headers(), which is not part of C11 (C09 and C10 report it)",
 "C07-v1": "needs nested groups with spare capacity: C07 declares flat routes (C03 and C11 report it)",
 "r10-C01-v2": "the defect is in how group paths are joined: C01 registers flat route sets (C11 reports it)",
 "r2-C01-v2": "needs a registration refused on its optional last segment: C01 speaks of registered sets (C08 reports it)",
 "r6-C18-v2": "only a handler's own writing into Params() of a bind-less route exposed it (second review); the pair of requests of C18 now uses a route with a bind",
 "r14-C01-v1": "the defect is in Group: C01 registers flat route sets (C11 reports it)",
 "r14-C01-v2": "needs a refused registration: C01 speaks of registered sets (C08 reports it)",
 "r14-C03-v1": "needs a before-function that panics: none in C03 (C13 and C15 report it)",
 "r14-C06-v1": "the README's second EBNF lets a parameter follow a regex value without a comma: accept / reject is open there (second review)",
 "r14-C18-v2": "what an accessor returns for a well-formed number out of range is declared unspecified (assumption of C18)",
}
import subprocess, sys
HEAD = subprocess.run("git -C /repo rev-parse --short HEAD", shell=True, capture_output=True, text=True).stdout.strip()
stale = []
rows = []
for d in sorted(glob.glob(os.path.join(VERIF, "seeded", "*"))):
    mp = os.path.join(d, "meta.json")
    if not os.path.exists(mp):
        continue
    m = json.load(open(mp))
    valid = m.get("demo_passes_without_patch") and m.get("demo_fails_with_patch") and m.get("suite_passes_with_patch")
    if HEAD and m.get("checked_at_repo_commit") != HEAD:
        stale.append(m["name"])  # confirmed against an older /repo: re-run tools/evalseed.py on it
    checks = m.get("checks", {})
    caught = [k for k, v in checks.items() if v.get("caught")]
    missed = [k for k, v in checks.items() if not v.get("caught")]
    needs = m.get("needs", "")[:170]
    if m["name"] in OUTSIDE and m.get("property") not in caught:
        needs += " **[not reported by %s by design: %s]**" % (m.get("property"), OUTSIDE[m["name"]])
    rows.append((m["name"], m.get("property", ""), "yes" if valid else "NO", ", ".join(caught) or "-", ", ".join(missed) or "-", needs, m.get("source", "")[:40]))
out = ["| seed | property | confirmed (suite passes, demo fails only with it) | caught by | run but not caught by | what it needs to manifest |", "|---|---|---|---|---|---|"]
for r in rows:
    out.append("| %s | %s | %s | %s | %s | %s |" % r[:6])
table = "\n".join(out)
p = os.path.join(VERIF, "DESIGN.md")
s = open(p).read()
a, b = "<!-- KILLMATRIX:BEGIN -->", "<!-- KILLMATRIX:END -->"
if a in s and b in s:
    s = s[: s.index(a) + len(a)] + "\n" + table + "\n" + s[s.index(b):]
    open(p, "w").write(s)
print(table)
if stale:
    print("WARNING: %d seeds were last confirmed against an older /repo commit than %s: %s" % (len(stale), HEAD, " ".join(stale)), file=sys.stderr)
