#!/bin/bash
# tools/mutmatrix.sh [pattern] - apply every hand-made mutant under /verif/mutants
# to a scratch copy of /repo, check whether the repository's suite notices it,
# and run the quick tier of the check(s) of its property against the copy.
# Output: <mutant> suite=<pass|FAIL> <ID>=<caught|missed|inconclusive> ...
root=$(cd "$(dirname "$0")/.." && pwd)   # works from a worktree of /verif too
cd "$root"
export VERIF_WORK=${VERIF_WORK:-$root/.work5}
declare -A MAP=( [revF14]="C15" [revF15]="C18" [revF16]="C16" [revF17]="C09" [revF18]="C11" [revF19]="C08 C11" [revF01]="C02 C08" [revF02]="C02 C08" [revF03]="C08" [revF04]="C12" [revF05]="C09" [revF06]="C10" [revF07]="C08" [revF08]="C09" [revF09]="C03" [revF10]="C14" [revF11]="C11" [revF12]="C10" [revF13]="C17" [c07e]="C07 C02" )
for f in mutants/${1:-*}.diff; do
  n=$(basename "$f" .diff)
  ids=${MAP[$n]:-}
  if [ -z "$ids" ]; then p=${n:1:2}; ids="C$p"; fi
  rm -rf "$VERIF_WORK/scratch-replays"
  out=$(tools/trymut "$f" $ids 2>&1)
  sigs=$(python3 -c "
import json,glob
print(','.join(sorted({json.load(open(f)).get('sig','?') for f in glob.glob('$VERIF_WORK/scratch-replays/*.json')})))" 2>/dev/null)
  suite="pass"; echo "$out" | grep -q "suite: FAILS" && suite="FAIL"
  echo "$out" | grep -q "PATCH FAILED" && { echo "$n PATCH-FAILED"; continue; }
  line="$n suite=$suite"
  for id in $ids; do
    code=$(echo "$out" | grep -E "^$id exit=" | sed 's/.*exit=//')
    case "$code" in 1) r=caught;; 0) r=missed;; *) r="inconclusive($code)";; esac
    line="$line $id=$r"
  done
  echo "$line clauses=$sigs"
done
