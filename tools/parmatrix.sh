#!/bin/bash
# tools/parmatrix.sh <streams> [glob] - tools/seedmatrix.sh for many seeds at once: the
# seeds (C05 ones last, they take minutes each) are dealt out to <streams> workers, each
# with a work directory of its own; one line per seed in .parmatrix/<k>.log.
# SKIP_C05=1 leaves the C05 seeds out.
root=$(cd "$(dirname "$0")/.." && pwd); cd "$root"
n=${1:-6}; glob=${2:-*}
mkdir -p .parmatrix; rm -f .parmatrix/*.log
names=$(for d in $(eval echo seeded/$glob/); do b=$(basename "$d"); [[ "$b" == *C05* ]] || echo "$b"; done)
[ -z "$SKIP_C05" ] && names="$names $(for d in $(eval echo seeded/$glob/); do b=$(basename "$d"); [[ "$b" == *C05* ]] && echo "$b"; done)"
k=0
for name in $names; do echo "$name" >> .parmatrix/list.$((k % n)); k=$((k+1)); done
for ((i=0;i<n;i++)); do
  ( export VERIF_WORK=$root/.work-pm-$i
    while read name; do
      d=seeded/$name
      checks=$(python3 -c "import json; m=json.load(open('$d/meta.json')); print(' '.join(m.get('checks',{}).keys()) or m.get('property',''))")
      race=""; [[ "$checks" == *C05* ]] && race=1
      DEMO_RACE=$race python3 tools/evalseed.py "$root/$d" "$name" $checks 2>&1 | head -1
    done < .parmatrix/list.$i > .parmatrix/$i.log 2>&1
    rm -rf "$VERIF_WORK" ) &
done
wait
rm -f .parmatrix/list.*
python3 tools/seedmeta.py >/dev/null
cat .parmatrix/*.log | grep -c CAUGHT
