#!/usr/bin/env python3
"""Regenerates /verif/MANIFEST.json from the table below (kept in one place so
that the manifest always validates and stays in step with the driver)."""
import json, os

VERIF = os.path.dirname(os.path.dirname(os.path.abspath(__file__)))

CLAIMED = {
    # id: (technique, level text, level note, design ref)
    "C06": ("small-scope exhaustive enumeration + rapid derivation/mutation generators + native go fuzzing, oracle = independent grammar recogniser/parser and render-reparse round trip; spacing neighbours parsed by the same parser instance; reference-free closure relations (concatenation, splitting)",
            "Every string up to length 6 (quick) / 7 (thorough) over a 13-symbol token-class alphabet and up to 7 / 9 over the structural symbols is parsed and compared with an independent recursive-descent parser of the documented EBNF (acceptance, structure, canonical text, fixpoint); beyond the bound: random derivations, byte mutations and (thorough) coverage-guided fuzzing. Exhaustive inside the bound, sampled outside it.",
            "trusts the reference parser (internal/model/grammar.go, ~150 lines, written from internal/route/README.md) and the Go toolchain; character classes are represented by one member each in the exhaustive part",
            "DESIGN.md section 4 C06"),
}

CLAIMED["C01"] = (
    "rapid-generated route sets and requests (incl. wide sets with 13..30 siblings) + small-scope enumeration, oracle = reference matcher over the flat route list (documented priority) and a priority-free brute force for the iff; plus reference-free metamorphic relations (unrelated route, adjacent swap across ranks, other method, leading slashes); thorough tier: a coverage-guided native fuzz campaign that drives the same generator and oracle through rapid.MakeFuzz",
    "Random valid route sets (shared segment pool, random order, 1..2 methods) and constructed/mutated request paths are matched by route.Tree.Match and served by Flame.ServeHTTP; found/not-found must equal 'some route form admits the path' (brute force over alignments) and the winner must equal the reference matcher's. Plus every ordered set of <=2 (thorough <=3) compatible routes of a 13-route pool against all 780 paths of <=4 segments over 5 values.",
    "trusts the reference matcher internal/model/match.go (written from the statement) and Go's regexp for segment admission; only registrations the statement obliges the router to accept are used",
    "DESIGN.md section 4 C01")

CLAIMED["C02"] = (
    "rapid-generated route sets biased to binds + constructed paths with escapes, oracle = validity predicate (exhaustive search for an alignment/split explaining the reported values) and match->URLPath round trip",
    "For every dispatched request the reported bind values are checked against the route that actually won: some alignment of route segments to path segments and some split of each regex segment must exist in which literals match literally, each piece matches its own expression in full and decodes once to the reported value (so several legal splits are all accepted); Leaf.URLPath(values, form) must rebuild the decoded path; the handler must see the same values plus route=<canonical text>.",
    "trusts Go's regexp for 'matches its own expression in full', an own percent-decoder, and the reference parser for the canonical text; user expressions come from a pool without look-around assertions",
    "DESIGN.md section 4 C02")
CLAIMED["C08"] = (
    "rapid-generated registration histories with named invalidating operators, oracle = three-valued registration validity model (MUST_REJECT / MUST_ACCEPT / EITHER) + reachability of accepted routes through the reference matcher; thorough tier: a coverage-guided native fuzz campaign that drives the same generator and oracle through rapid.MakeFuzz",
    "Histories of accepted registrations followed by a candidate built by one of 21 operators named after the clauses of C08 are replayed on Flame.Route and route.AddRoute; the model's verdict must agree with 'panicked now / did not', every accepted route must serve its own instances (long and short form) through the reference matcher's winner, and no request may panic after any history, including after a rejected registration.",
    "trusts the validity model internal/model/registrar.go (written from the clause list of C08) and regexp.Compile for 'does not compile'; shapes the statement does not classify are EITHER",
    "DESIGN.md section 4 C08")

CLAIMED["C07"] = (
    "rapid-generated hostile requests (arbitrary bytes as method and URL.Path, up to 64 KiB / 4000 segments) over random valid route sets + native go fuzzing of a byte-decoded (route subset, method, headers, path) tuple; oracle = recover() + chain counter + exactly-one-of invariant + repeat determinism + reference matcher winner; per-case non-termination watchdog",
    "Requests with any method token and any byte string as path are served against random valid route sets (incl. none; default and user not-found): no panic may escape ServeHTTP, the application middleware starts exactly once, exactly one of {route handler, not-found chain} runs, unknown methods reach the not-found chain, a repeated request gives the identical outcome, and the handler equals the reference matcher's winner. A case that does not return within 60 s is a violation.",
    "trusts net/http/httptest, the reference matcher and the 60 s watchdog threshold (normal cost of a case: milliseconds); native fuzzing cannot be seeded, its saved crashers are the reproducible unit",
    "DESIGN.md section 4 C07")
CLAIMED["C09"] = (
    "rapid-generated route sets with header constraints registered through Get/Route/Routes/Any and re-specified 1..3 times, oracle = reference matcher with the documented header gate applied to every form and method",
    "Random valid route sets in which a random subset of routes is constrained (Headers called 1..3 times, registered through every multi-method API, incl. static and optional routes) are hit with requests carrying random header sets; the handler that ran (or not-found) must equal the reference matcher's winner when the gate 'every constrained header present, non-empty and matched' is applied to both forms and all methods of a route.",
    "trusts the reference matcher, net/http header canonicalisation and Go's regexp for header expressions",
    "DESIGN.md section 4 C09")
CLAIMED["C10"] = (
    "rapid-generated operation histories (register / Headers / request) replayed on Flame and on mirror route.Trees, differential oracle ServeHTTP vs Tree.Match (after a registration refused half way: each request vs its twin with one more leading slash)",
    "Histories of 3..25 operations - registrations of static, optional-static and shadowing dynamic routes, Headers() updates mirrored with SetHeaderMatcher, and requests whose paths include route text used literally, extra leading slashes and trailing slashes - are replayed; after every request the outcome of Flame.ServeHTTP (handler, parameters, not-found) must equal Tree.Match on the identically populated mirror tree.",
    "the mirror is the same matcher code without the router's shortcut in front (the differential the property states); a difference between the tree and the independent reference matcher is only recorded as a class (it would be C01 / C09 material)",
    "DESIGN.md section 4 C10")
CLAIMED["C12"] = (
    "rapid-generated named routes x value assignments (values with braces, other bind names, slashes, empty, absent, unknown names, withOptional spelled several ways), oracle = own single-pass substitution over the derivation; the same builds repeated from inside dispatched requests whose binds share names with the target; every URL handed out re-read after all later builds (a held string stays what it was); inverse direction through dispatched requests",
    "Named routes registered through Get/Route/Routes/Any/Combo/Group are built with Router.URLPath and Context.URLPath for random assignments and compared with an exact single-pass substitution written from the statement; requests built from route instances are served and the handler rebuilds the URL of its own route from the parameters it received, which must give the decoded request path; empty, duplicate and unknown names must panic.",
    "trusts the reference substitution (30 lines) and the reference parser for the derivation; supplied names are identifiers",
    "DESIGN.md section 4 C12")

CLAIMED["C03"] = (
    "rapid-generated handler programs (middleware, nested groups, route handlers, action; ops write/Next/recovering Next/cancel/panic/return value; GET and HEAD; sibling routes in the same group; the same stack of group paths opened twice with different handlers), oracle = cursor interpreter written from the statement + model-free trace invariants",
    "Random handler stacks are registered on a real Flame (middleware, up to three nested groups, 1..3 route handlers, optional action, other routes before and after in the same group) and one request is served; the recorded enter/next/back/exit trace, the status and the body must equal those of a cursor interpreter written from the statement, handlers must be entered as 0,1,2,... without gap or repetition and enter/exit must nest.",
    "trusts the interpreter (60 lines) and httptest; handlers are closures of the shapes func(Context) and func(Context) result",
    "DESIGN.md section 4 C03")
CLAIMED["C13"] = (
    "rapid-generated operation histories on NewResponseWriter over a spy writer (WriteHeader/Write incl. short writes with an error and short counts without one/Flush/Before hooks; GET/HEAD/POST; with and without http.Flusher), oracle = state-machine model compared after every step + invariants over the spy's call log; second rapid check: responses of many 1..32 MiB writes into a writer that only counts, totals around 2^31 and 2^32 bytes, Size() == bytes forwarded",
    "Histories of 1..14 operations are applied to the real ResponseWriter wrapped around a spy; after every step Status/Written/Size and Write's results must equal a state-machine model written from the statement, the spy must have seen at most one status line and seen it first with the headers set by the hooks already present, hooks registered before the first write must have run exactly once in reverse order observing Status()==0, later hooks never.",
    "trusts the 40-line model; hooks do not write (precondition); status codes 100..999",
    "DESIGN.md section 4 C13")
CLAIMED["C14"] = (
    "rapid-generated return values for every supported shape at every chain position (+ custom ReturnHandler at application/request scope, + a value returned earlier in the chain), oracle = own response table, continuation rule and fast-path vs reflective differential",
    "Handlers of the 13 supported return shapes returning generated values (arbitrary bytes, empty, nil, nil/non-nil errors of six home-made types and 24 well-known error values of the standard library as they are or wrapped, any valid status) are placed as middleware, group handler, route handler or action; the spy's status, body and call order must equal an own table written from the statement, the following handler must run iff nothing was written, func() (int,string) must behave identically through the built-in fast path and reflectively, and a mapped ReturnHandler must receive exactly the returned values while the table is not applied.",
    "trusts the table (40 lines); (int, \"\") sends the status with an empty body",
    "DESIGN.md section 4 C14")
CLAIMED["C15"] = (
    "rapid-generated chains with Recovery at any position, panics of eight value kinds (incl. runtime errors, http.ErrAbortHandler, typed-nil errors and failed injection) at any later position/phase, in three environments, over request sequences, optionally with a client that is gone (body writes fail below); oracle = recover() around ServeHTTP + interpreter of what had been sent before the panic + fresh-instance differential",
    "Random applications with Recovery as middleware, group handler or first route handler, recording middleware before it and 1..3 later handler programs are hit with sequences of panicking and healthy requests: nothing may escape ServeHTTP, the status must be the one sent before the panic or 500 if none, the body must be the earlier bytes plus a tail that shows the panic value in development mode and shows neither the value nor stack frames otherwise, every recording middleware must complete its code after Next(), and healthy requests must answer like on a fresh instance.",
    "trusts the interpreter of the handler programs (40 lines); SetEnv is process-global and set per case, cases run one at a time",
    "DESIGN.md section 4 C15")

CLAIMED["C11"] = (
    "rapid-generated registration programs (nested Group with handlers, Get..Trace, Route, Any, Routes list/args forms, Combo, AutoHead toggles; handler slices with spare capacity; group paths used twice at one level; children that spell the enclosing prefix again), oracle = own flatten() + differential against a Flame built from the flat list",
    "Registration programs are built on a Flame P and their own flat expansion (method, concatenated path, group handlers outermost first then own) on a Flame Q through Route(); for every registered path and all nine methods the handler-id trace, not-found and parameters of P must equal Q's and flatten's expectation, which covers group stack discipline, AutoHead scope, Routes/Any expansion and slice aliasing between sibling routes, groups and Combo methods; Combo must refuse a repeated method.",
    "trusts flatten (50 lines, written from the statement); while AutoHead is on, GET is declared through Get/Combo.Get/Any only",
    "DESIGN.md section 4 C11")

CLAIMED["C04"] = (
    "rapid-generated histories of Map/MapTo/Set/Invoke/Apply over 1..3 nested injectors and a 26-type universe (named and unnamed composite types, types that print alike, sealed and empty interfaces) (reflect.MakeFunc handlers, reflect.StructOf targets, six fast invokers with plain twins), oracle = own scope-chain resolver with set-valued implementor resolution; second check at framework level with live model (request > application > outer parent, remapped Context/ResponseWriter/*http.Request, built-in fast wrappers vs reflective handlers)",
    "Interleaved registrations and invocations are replayed on real injectors; every argument must be a legal resolution by the own resolver (exact in scope, else any value registered in that scope under an implementing key, else parent), unresolvable parameters must give an error naming the type with the body not run, results must come back DeepEqual, and fast invokers must receive what their plain twins receive. At framework level a live model checks what func(Context), func(ResponseWriter,*Request), http.HandlerFunc, reflective and typed handlers receive across request / application / outer scopes, remaps of the built-in services, per-request isolation and the panic on an unresolvable parameter.",
    "trusts the resolver (30 lines) and reflect; several implementors registered in one scope make a set of legal answers (map order is not part of the contract)",
    "DESIGN.md section 4 C04")
CLAIMED["C18"] = (
    "rapid-generated requests (value-first query encoding by an own percent codec, raw hostile queries, bind parameter values, cookie values of arbitrary bytes up to 70 KB, cookies on one or on several Cookie header lines, raw Cookie headers) x every accessor with and without default, oracle = own evaluation of the one rule (own integer recogniser + big.Int range check, 12-literal boolean table, exact float round trip) and SetCookie -> Cookie round trip",
    "Every Query* accessor, Param/ParamInt/ParamInt64 and Cookie is called inside a handler for generated requests; results must equal an own evaluation of the rule 'present -> value converted by the standard rules, zero on malformed text; absent or empty -> default or zero', nothing may panic, and the name=value of the Set-Cookie header produced by SetCookie, sent back as Cookie header, must read back byte for byte for arbitrary byte strings.",
    "trusts net/http's own query/cookie parsing for what a raw header contains (raw inputs are checked for totality and consistency only) and strconv.ParseFloat for which texts are float literals; out-of-range integers are unspecified",
    "DESIGN.md section 4 C18")

CLAIMED["C05"] = (
    "rapid-generated concurrent rounds (2..16 goroutines x 5..40 requests over routes of every kind, yields inside handlers, GOMAXPROCS in {2,4,16}, 0..7 middleware, a second application mounted below the first, a Static directory without index hammered a hundred times) on a fresh instance, built with -race; oracle = serial-vs-concurrent differential + Go race detector (halt_on_error, the round in flight is the replay artefact)",
    "Two identical applications are built per round; one serves every distinct request alone, the fresh one is hit by goroutines released together; every concurrent response (route marker, echoed parameters, request-scoped token received by type, URLs built from named routes) must equal the serial one and the race detector must stay silent. Interleavings are sampled, not enumerated: this finds shared framework state written during requests (handler slices, lazily cached strings, shared parameter maps), not logical races on properly synchronised state.",
    "trusts the Go race detector; the harness does not own the scheduler, so a failure reproduces only statistically and absence of a report is weaker evidence here than for the other properties",
    "DESIGN.md section 4 C05 and section 5")
CLAIMED["C16"] = (
    "rapid-generated option sets x hostile request paths (traversal, doubled slashes, NUL, backslash, prefix look-alikes, directories, conditional requests, proxy / forged request headers; the directory named plainly, by default or through a relative symbolic link next to a decoy) against an on-disk fixture with marker files inside and outside the directory, oracle = own resolver over the fixture manifest + 'no outside marker ever' invariant + silent-means-next-handler check",
    "Static is mounted on a generated fixture tree with every option combination and asked for generated paths with every method; an own resolver says whether the request must be left alone (then the next handler must have produced the whole response and Static may not have set any header), redirected to a local slash-terminated path, or answered with exactly the marker of one regular file inside the directory (HEAD: empty; 304 for a matching ETag when SetETag), with the configured Expires / Cache-Control; no response may ever contain the marker of a file outside the directory.",
    "trusts the resolver (40 lines), path.Clean and the local file system; no symlinks inside the directory (the directory itself may be reached through links); an index-less directory without trailing slash may be redirected or left alone",
    "DESIGN.md section 4 C16")
CLAIMED["C17"] = (
    "rapid-generated render calls (random nested JSON values, tagged structs, XML structs with attributes / optional / repeated elements, arbitrary bytes and text, any status, all option combinations, Renderer at any level, GET/POST/HEAD, optional nested request through the same application, optionally after a request that rendered an unencodable value of the same Go type), oracle = spy status/Content-Type + decode round trip + layout by the configured indentation",
    "For every generated call the spy must have received exactly the given status once and first, the documented Content-Type with the configured charset, Binary / PlainText bodies verbatim, a JSON body that is valid JSON laid out with the configured indentation and decodes DeepEqual to the value, an XML body equal to encoding/xml's output that decodes into an equal struct; every handler after the Renderer middleware must receive a Render, and a nested request served before rendering must not disturb the outer response.",
    "trusts encoding/json and encoding/xml as 'the standard encoders'; values are encodable and XML-representable",
    "DESIGN.md section 4 C17")

PENDING = {}

def main():
    props = [json.loads(l) for l in open(os.path.join(VERIF, "properties.jsonl")) if l.strip()]
    checks = []
    na = []
    for p in props:
        pid = p["id"]
        if pid in CLAIMED:
            tech, text, note, ref = CLAIMED[pid]
            checks.append({
                "property_id": pid,
                "quick_cmd": "./check %s quick" % pid,
                "thorough_cmd": "./check %s thorough" % pid,
                "evidence_file": "/verif/evidence/%s.json" % pid,
                "replay_cmd_template": "./check %s replay {path}" % pid,
                "engine": "harness",
                "level_claimed": {"category": "exploration", "text": text, "design_ref": ref},
                "level_note": note,
                "technique": tech,
            })
        else:
            na.append({"property_id": pid, "reason": PENDING.get(pid, "check not built yet in this round (property-based check planned, see DESIGN.md section 4); not claimed until it runs clean")})
    man = {
        "version": 1,
        "setup_cmd": "cd /verif/harness && export GOFLAGS=-mod=mod GOPROXY=off GOSUMDB=off GOTOOLCHAIN=local && (go vet ./... >/dev/null 2>&1; go test -count=1 -run '^$' ./... >/dev/null && go test -count=1 ./internal/... >/dev/null)",
        "hooks": {
            "guard": "verif",
            "enable": "no source hooks are needed: the harness module path github.com/flamego/flamego/verifharness lets it import internal/route of the replaced module /repo, so checks compile /repo's working tree as it is",
            "baseline_off_cmd": "cd /repo && go test -vet=off -count=1 ./...",
            "source_commits": [],
            "add_only": True,
        },
        "engines": [{
            "name": "harness",
            "path": "/verif/harness",
            "serves_properties": sorted(CLAIMED),
            "kind_free_text": "Go module of property-based tests (pgregory.net/rapid v1.3.0, small-scope enumeration, native go fuzzing) with reference models, driven by /verif/check",
        }],
        "checks": checks,
        "notes": "Driver: ./check <ID> quick|thorough|replay <file>. Exit 0 held / 1 violation (VIOLATION line) / 2 inconclusive. VERIF_SEED selects the rapid seeds. Known findings and fixed defects: known_findings.txt.",
        "not_applicable": na,
    }
    with open(os.path.join(VERIF, "MANIFEST.json"), "w") as f:
        json.dump(man, f, indent=1)
        f.write("\n")

if __name__ == "__main__":
    main()
