#!/usr/bin/env python3
"""Fills the descriptive fields of /verif/seeded/*/meta.json (which property a
seed breaks, what it needs in order to manifest, where it came from)."""
import json, os, glob
VERIF = os.path.dirname(os.path.dirname(os.path.abspath(__file__)))
NEEDS = {
 "C01-v1": "unstable sort.Slice replaces ordered insertion: >= 13 siblings of mixed kinds under one tree node and two equally ranked siblings admitting the same segment",
 "C01-v2": "static subtree match short-circuits backtracking: a non-final segment equals a static sibling, the rest is not admitted below it, a lower-priority sibling admits the whole path",
 "C02-v1": "capture groups counted textually: a regex segment with >= 2 binds where an earlier expression contains a non-capturing '(' such as [a-z(] or (?i)",
 "C02-v2": "capture limit of a match-all leaf ignores empty segments: capture: N and a request whose match-all part exceeds N only when empty segments ('//' or trailing '/') are counted",
 "C03-v1": "group handler list shares a backing array: nested groups whose accumulated handler slice has spare capacity and >= 2 routes registered in the innermost group",
 "C03-v2": "HEAD write no longer marks the response written: HEAD request, a handler that writes without WriteHeader, and a further handler after it",
 "C04-v1": "implementor lookup memoised: register K implementing I, resolve I, re-register K, resolve I again (stale value)",
 "C04-v2": "func(Context) fast path bypasses the injector: an earlier handler re-registers Context in the request scope, a later handler has exactly the signature func(Context)",
 "C05-v1": "per-request chain appended to the shared middleware slice: middleware added by 3 (or 5,6,7,9+) separate Use calls and two overlapping requests for routes with different handlers",
 "C05-v2": "unsynchronised lazy cache in Leaf.URLPath: >= 2 overlapping first-ever URL builds of the same named route (cold instance); only the race detector sees it",
 "C06-v1": "Segment.String fast path drops the optional marker of an empty segment: a route containing a segment that is exactly '/?'",
 "C06-v2": "whitespace token collapsed: a tab/newline/CR/FF directly after ':' or ',' inside a parameter list is accepted",
 "C07-v1": "group handlers share a backing array (as C03-v1): the chosen route runs a sibling route's handler; nested groups with spare capacity and >= 2 routes",
 "C07-v2": "lenient percent decoder without bounds check: a captured bind value that PathUnescape rejects and that ends in '%' or '%<one hex digit>'",
 "C08-v1": "parent bind set skips regex ancestors: the first use of a bind name is in a non-final regex segment and a later segment reuses it",
 "C08-v2": "short form of an optional route registered before validation: a registration that fails on its optional last segment, then a request for (or registration of) the short form",
 "C09-v1": "Headers() with zero pairs is ignored: Headers(k, v) then Headers() on the same route, then a request failing the old constraints",
 "C09-v2": "a present-but-empty header satisfies expressions that match the empty string: header sent with an empty value and an expression such as '' or '.*'",
 "C10-v1": "optional-static route also stored under its short path, Headers() evicts only the long key: optional-static route, Headers() on it, request for the short path failing the constraint",
 "C10-v2": "shortcut lookup key trimmed on both sides: a path with an extra leading slash AND a trailing slash whose trimmed form is an unconstrained static route",
 "C11-v1": "group handler slice aliasing (as C03-v1)",
 "C11-v2": "group prefix restored with strings.TrimRight (cutset, not suffix): groups nested >= 2 deep where the enclosing prefix ends with a character of the inner group's path, and a route declared after the inner group closed",
 "C12-v1": "sequential substitution re-scans supplied values: a value that contains '{x}' where x is a later bind with a supplied value",
 "C12-v2": "static fast path ignores withOptional: a fully static named route ending in an optional segment built without withOptional=true",
 "C13-v1": "empty first write does not commit status 200: the first status-triggering operation is Write of a zero-length slice",
 "C13-v2": "status recorded before the before-functions run: a Before() function that inspects Status()/Written() while it runs",
 "C14-v1": "non-nil error with an empty message writes nothing: errors.New(\"\") returned by a handler (shapes error, (string,error), ([]byte,error))",
 "C14-v2": "ReturnHandler looked up once per request and cached: a handler returns a value that writes nothing, a later middleware maps a ReturnHandler at request scope, a later handler returns a value",
 "C15-v1": "panic value formatted by calling Error()/String() directly: a typed-nil error whose method dereferences the receiver, so a second panic escapes Recovery",
 "C15-v2": "development-mode decision hoisted to construction time: Recovery() built in development mode, SetEnv(production) afterwards, then a panic",
 "C16-v1": "Open errors other than not-exist/permission answered with 500: a NUL byte in the path (or an over-long segment)",
 "C16-v2": "prefix boundary check made unreachable by path.Clean: request path '<prefix><name>' without a slash between them where <name> exists in the directory",
 "C17-v1": "body dropped for bodiless status codes (1xx, 204, 304) [patch rebased onto the HEAD-write fix]: a render call with such a status and a non-empty body",
 "C17-v2": "one shared render value per Renderer instance: a second request passes the middleware before the first request's handler renders (overlapping requests, or a nested sub-request)",
 "C18-v1": "SetCookie escapes with PathEscape: a cookie value containing '+'",
 "C18-v2": "QueryInt64 returns the default on parse errors: a present, non-empty, unparsable value together with a supplied default",
}
for d in sorted(glob.glob(os.path.join(VERIF, "seeded", "*"))):
    name = os.path.basename(d)
    mp = os.path.join(d, "meta.json")
    if not os.path.exists(mp):
        continue
    m = json.load(open(mp))
    m["property"] = name.split("-")[0] if not name.startswith("rev") else m.get("property", "")
    if name in NEEDS:
        m["needs"] = NEEDS[name]
    m.setdefault("source", "independent sub-agent given only the property text and a scratch worktree")
    json.dump(m, open(mp, "w"), indent=1)
    open(mp, "a").write("\n")
print("ok")
