#!/usr/bin/env python3
"""Fills the descriptive fields of /verif/seeded/*/meta.json (which property a
seed breaks, what it needs in order to manifest, where it came from)."""
import json, os, glob
VERIF = os.path.dirname(os.path.dirname(os.path.abspath(__file__)))
NEEDS = {
 "C01-v1": "unstable sort.Slice replaces ordered insertion: >= 13 siblings of mixed kinds under one tree node and two equally ranked siblings admitting the same segment",
 "C01-v2": "static subtree match short-circuits backtracking: a non-final segment equals a static sibling, the rest is not admitted below it, a lower-priority sibling admits the whole path",
 "C02-v1": "capture groups counted textually: a regex segment with >= 2 binds where an earlier expression contains a non-capturing '(' such as [a-z(] or (?i)",
 "C02-v2": "capture limit of a match-all leaf ignores empty segments: capture: N and a request whose match-all part exceeds N only when empty segments ('//' or trailing '/') are counted",
 "C03-v1": "group handler list shares a backing array: nested groups whose accumulated handler slice has spare capacity and >= 2 routes registered in the innermost group",
 "C03-v2": "HEAD write no longer marks the response written: HEAD request, a handler that writes without WriteHeader, and a further handler after it",
 "C04-v1": "implementor lookup memoised: register K implementing I, resolve I, re-register K, resolve I again (stale value)",
 "C04-v2": "func(Context) fast path bypasses the injector: an earlier handler re-registers Context in the request scope, a later handler has exactly the signature func(Context)",
 "C05-v1": "per-request chain appended to the shared middleware slice: middleware added by 3 (or 5,6,7,9+) separate Use calls and two overlapping requests for routes with different handlers",
 "C05-v2": "unsynchronised lazy cache in Leaf.URLPath: >= 2 overlapping first-ever URL builds of the same named route (cold instance); only the race detector sees it",
 "C06-v1": "Segment.String fast path drops the optional marker of an empty segment: a route containing a segment that is exactly '/?'",
 "C06-v2": "whitespace token collapsed: a tab/newline/CR/FF directly after ':' or ',' inside a parameter list is accepted",
 "C07-v1": "group handlers share a backing array (as C03-v1): the chosen route runs a sibling route's handler; nested groups with spare capacity and >= 2 routes",
 "C07-v2": "lenient percent decoder without bounds check: a captured bind value that PathUnescape rejects and that ends in '%' or '%<one hex digit>'",
 "C08-v1": "parent bind set skips regex ancestors: the first use of a bind name is in a non-final regex segment and a later segment reuses it",
 "C08-v2": "short form of an optional route registered before validation: a registration that fails on its optional last segment, then a request for (or registration of) the short form",
 "C09-v1": "Headers() with zero pairs is ignored: Headers(k, v) then Headers() on the same route, then a request failing the old constraints",
 "C09-v2": "a present-but-empty header satisfies expressions that match the empty string: header sent with an empty value and an expression such as '' or '.*'",
 "C10-v1": "optional-static route also stored under its short path, Headers() evicts only the long key: optional-static route, Headers() on it, request for the short path failing the constraint",
 "C10-v2": "shortcut lookup key trimmed on both sides: a path with an extra leading slash AND a trailing slash whose trimmed form is an unconstrained static route",
 "C11-v1": "group handler slice aliasing (as C03-v1)",
 "C11-v2": "group prefix restored with strings.TrimRight (cutset, not suffix): groups nested >= 2 deep where the enclosing prefix ends with a character of the inner group's path, and a route declared after the inner group closed",
 "C12-v1": "sequential substitution re-scans supplied values: a value that contains '{x}' where x is a later bind with a supplied value",
 "C12-v2": "static fast path ignores withOptional: a fully static named route ending in an optional segment built without withOptional=true",
 "C13-v1": "empty first write does not commit status 200: the first status-triggering operation is Write of a zero-length slice",
 "C13-v2": "status recorded before the before-functions run: a Before() function that inspects Status()/Written() while it runs",
 "C14-v1": "non-nil error with an empty message writes nothing: errors.New(\"\") returned by a handler (shapes error, (string,error), ([]byte,error))",
 "C14-v2": "ReturnHandler looked up once per request and cached: a handler returns a value that writes nothing, a later middleware maps a ReturnHandler at request scope, a later handler returns a value",
 "C15-v1": "panic value formatted by calling Error()/String() directly: a typed-nil error whose method dereferences the receiver, so a second panic escapes Recovery",
 "C15-v2": "development-mode decision hoisted to construction time: Recovery() built in development mode, SetEnv(production) afterwards, then a panic",
 "C16-v1": "Open errors other than not-exist/permission answered with 500: a NUL byte in the path (or an over-long segment)",
 "C16-v2": "prefix boundary check made unreachable by path.Clean: request path '<prefix><name>' without a slash between them where <name> exists in the directory",
 "C17-v1": "body dropped for bodiless status codes (1xx, 204, 304) [patch rebased onto the HEAD-write fix]: a render call with such a status and a non-empty body",
 "C17-v2": "one shared render value per Renderer instance: a second request passes the middleware before the first request's handler renders (overlapping requests, or a nested sub-request)",
 "C18-v1": "SetCookie escapes with PathEscape: a cookie value containing '+'",
 "C18-v2": "QueryInt64 returns the default on parse errors: a present, non-empty, unparsable value together with a supplied default",
}

NEEDS.update({
 "r2-C01-v1": "pruning bound of a mid-route match-all set only when its subtree is created: two routes share the same mid match-all, the one with the longer continuation registered first, request for the shorter one",
 "r2-C01-v2": "match-all leaf uniqueness check moved after the optional block: '/files/?{rest: **}' is rejected after '/files/{paths: **}' but its short form '/files' stays registered and serves",
 "r2-C02-v1": "capture groups counted by a scanner that ignores character classes: an earlier bind with a class containing balanced parentheses such as [a-z()] followed by a bind with its own groups",
 "r2-C02-v2": "reserved parameter route set before the matched values are copied: a bind literally named 'route' that is matched, or tried and abandoned before the winner",
 "r2-C03-v1": "group handler slice aliasing (nested groups with spare capacity, >= 2 sibling routes)",
 "r2-C03-v2": "Done channel of the request context cached: a handler installs a derived context on the request and cancels that one",
 "r2-C04-v1": "implementor memo cleared by Map/MapTo but not by Set: resolve I through K, Set(K, new), resolve I again",
 "r2-C04-v2": "func(Context) fast path bypasses the injector after a request-scope re-registration of Context",
 "r2-C05-v1": "implementor lookup memoised into the shared application injector: concurrent first resolutions of an interface through a concrete application service (race detector)",
 "r2-C05-v2": "single-entry URL template cache keyed by withOptional: concurrent URL builds with and without withOptional for a named route with an optional segment",
 "r2-C06-v1": "parse cache keyed by a lossy spacing normalisation: the same parser parses two routes that differ only in blanks after ',' inside a regex value",
 "r2-C06-v2": "separator state leaks across elements in Segment.String: two parameter lists in one segment",
 "r2-C07-v1": "HeaderMatcher reads vals[0] of a raw map lookup: a constrained header present with an empty value list on a request that reaches the constrained leaf",
 "r2-C07-v2": "NotFound() with zero handlers installs http.NotFound directly: application middleware does not run for unmatched requests",
 "r2-C08-v1": "'{**}' misclassified during subtree lookup: two valid routes sharing a non-final '{**}' segment - the second is rejected",
 "r2-C08-v2": "'under a match-all' flag not set for regex trees: two non-final match-alls separated by a regex segment are accepted",
 "r2-C09-v1": "short path of an optional-static route also stored in the shortcut table, Headers() evicts only the long key",
 "r2-C09-v2": "':=' shadowing leaves the short-form leaf of a single-segment optional route unlinked: '/?x' with Headers(), request for '/'",
 "r2-C10-v1": "Routes() keys the returned leaves by the caller's method spelling: Routes(path, \"get,post\").Headers() on a static route evicts nothing",
 "r2-C10-v2": "both request paths of an optional-static route stored in the shortcut table, Headers() evicts only the long one",
 "r2-C11-v1": "group handler slice aliasing",
 "r2-C11-v2": "AutoHead registers HEAD under the URL-building template: GET route with a regex bind, match-all options or optional mark while AutoHead is on, HEAD request that tells the patterns apart",
 "r2-C12-v1": "offset 0 used as 'no optional segment' sentinel: a named route whose only segment is optional, built without withOptional",
 "r2-C12-v2": "static fast path in URLPath ignores withOptional: fully static named route ending in an optional segment",
 "r2-C13-v1": "status stored by CompareAndSwap before the before-functions run",
 "r2-C13-v2": "zero-length first write does not commit status 200",
 "r2-C14-v1": "ReturnHandler resolved once per request and cached: value returned, then request-scope mapping, then another value returned",
 "r2-C14-v2": "1xx status codes forwarded without marking the response written: (1xx, x) return values let the chain continue",
 "r2-C15-v1": "Recovery returns without writing when the request context is done: panic after the context was cancelled",
 "r2-C15-v2": "httpHandlerFuncInvoker swallows http.ErrAbortHandler: that value panicked from a net/http-shaped handler",
 "r2-C16-v1": "prefix boundary check made unreachable by cleaning first: '<prefix><name>' without a slash",
 "r2-C16-v2": "'index must not be a directory' test lost: slash-terminated directory whose index entry is itself a directory",
 "r2-C17-v1": "one render value per Renderer instance: nested or overlapping requests",
 "r2-C17-v2": "JSON/XML return before WriteHeader on HEAD requests: HEAD + non-200 status",
 "r2-C18-v1": "Query accessors read the merged form once it has been parsed: POST with a urlencoded body after ParseForm",
 "r2-C18-v2": "memoised cookie is unescaped again on every read: the same cookie read twice in one request, value with '+' or '%XX'",
 "r3-T1-v1": "maintenance commit (matching performance): minimum-remaining-segments pruning counts a final optional segment - '/repos/{path: **}/tree/?{ref}' requested in its short form",
 "r3-T1-v2": "maintenance commit (header check hoisted into callers): the match-all leaf fallback lost it - constrained route ending in a match-all, request spanning >= 2 segments without the header",
 "r3-T2-v1": "maintenance commit (group scopes precomputed): handler slice aliasing between sibling routes of a nested group",
 "r3-T2-v2": "maintenance commit (one table per method): a shortcut miss goes straight to not-found when the method has only static routes - extra or missing leading slashes",
 "r3-T3-v1": "maintenance commit (run loop split): Done channel fetched once per loop - derived request context cancelled mid-chain",
 "r3-T3-v2": "maintenance commit (fast invokers called directly): only Set/MapTo on the context are watched - *http.Request re-mapped with Map, or writer re-mapped through the TypeMapper a Map call returns",
 "r3-T4-v1": "maintenance commit (response helpers): empty-body guard runs before the error branch - non-nil error with empty message",
 "r3-T4-v2": "maintenance commit (io.StringWriter support): WriteString lacks the HEAD short-circuit - string bodies on HEAD requests reach the underlying writer",
 "r3-T5-v1": "maintenance commit (Static split into helpers): index entry that is a directory is served",
 "r3-T5-v2": "maintenance commit (Recovery responders): environment read at construction",
 "r3-T6-v1": "maintenance commit (lexer/grammar tidy-up): Whitespace* accepts tab/newline after ':' and ','",
 "r3-T6-v2": "maintenance commit (URL template cached on the AST): \"\" used as sentinel - route consisting of one optional segment built without withOptional",
})
NEEDS.update({
 "r5-C01-v1": "whole path unescaped before splitting: a request path that still contains %2F (client sent %252F) so that one segment becomes two",
 "r5-C01-v2": "empty request segment rejected early by regex leaves and subtrees: a nullable user expression ([a-z]*, (en|fr)?) and a request with an empty segment in that position",
 "r5-C02-v1": "short form of a route whose only segment is optional built from a synthetic '/' route: request for '/' and the reserved parameter route read",
 "r5-C02-v2": "decoding skipped unless '%' is found at index > 0: request path that begins with a %-escape right after the leading slash, first segment a bind",
 "r5-C03-v1": "ResponseWriter gains ReadFrom that bypasses its own WriteHeader: underlying writer implements io.ReaderFrom, a handler streams the body with io.Copy and another handler follows",
 "r5-C03-v2": "cancel check moved to the bottom of the run loop: a handler cancels the context and then calls Next(), or the context is already cancelled on entry",
 "r5-C04-v1": "implementor scan pre-filtered by NumMethod: an interface with unexported (sealed) methods requested and a value registered under an implementing type with fewer exported methods",
 "r5-C04-v2": "request contexts recycled through a sync.Pool without clearing the injector: a handler maps a value at request scope and a later request asks for that type",
 "r5-C05-v1": "Renderer hands every request the same *render: two requests in flight, one passes the middleware between the other's middleware and its render call",
 "r5-C05-v2": "Recovery's source-line cache shared by all requests: concurrent panicking requests in development mode (data race)",
 "r5-C06-v1": "raw brace count before lexing: a regex value containing an unbalanced '}' (e.g. /[}]/ or /a}/)",
 "r5-C06-v2": "bind literal used as fmt format string in Segment.String: a parameter literal containing '%'",
 "r5-C07-v1": "shortcut table flattened to method+path keys: unknown method that is a proper prefix of a registered one and a path starting with the remaining letters (GE + T/users)",
 "r5-C07-v2": "capture groups counted with strings.Count('('): a bind whose expression has a non-capturing '(' ((?i), [(], escaped) followed by another bind - index out of range panic",
 "r5-C08-v1": "stand-alone compilation skipped for the last bind of a segment: an expression invalid alone that balances once wrapped in the framework's parentheses (e.g. 'a)(b')",
 "r5-C08-v2": "optional-not-last check only runs when a new subtree is created and subtrees are looked up ignoring '?': an ill-formed route with an optional non-final segment whose text already exists as a subtree",
 "r5-C09-v1": "header constraint evaluated over all fields joined with ', ': request carrying the constrained header more than once",
 "r5-C09-v2": "shortcut key remembered in Route.staticPath, not filled in by Routes(): a static route registered through Routes() and then constrained with Headers()",
 "r5-C10-v1": "shortcut hands every request the same params map: a handler writes into Params() of a static route and a later request of the same route reads them",
 "r5-C10-v2": "single wildcard shortcut table for Any routes consulted for every method: a static Any route requested with a method outside the nine known ones",
 "r5-C11-v1": "group scope judged by non-empty concatenated prefix: every enclosing group has the empty path, group handlers dropped",
 "r5-C11-v2": "Combo registers through Route(method) instead of Get: AutoHead on, Combo().Get(), HEAD request",
 "r5-C12-v1": "URLPath emits only the first bind of a bracket: a segment bracket declaring >= 2 regex binds",
 "r5-C12-v2": "group path parsed once, segments appended in place: sibling routes of a nested group share a backing array, URLPath of the earlier one shows the later one's tail",
 "r5-C13-v1": "Flush returns early when the underlying writer is no Flusher: first operation is Flush on a non-flushing writer, then WriteHeader",
 "r5-C13-v2": "Size() not advanced when the underlying Write returns an error: a partial write together with an error",
 "r5-C14-v1": "default return handler returns early for HEAD: HEAD request and a return shape without int status, followed by another handler",
 "r5-C14-v2": "return values discarded once the response is written: the returning handler itself flushed, sent a status line or wrote before returning",
 "r5-C15-v1": "last panic value compared with ==: two consecutive panics with values of the same non-comparable dynamic type (slice, map, struct holding one)",
 "r5-C15-v2": "no status written for HEAD: HEAD request whose chain panics, handlers behind the panicking one then run",
 "r5-C16-v1": "caching headers set before the directory checks: Expires/CacheControl configured and a directory without servable index requested (response of the rest of the chain carries them)",
 "r5-C16-v2": "relative redirect location: directory reached through trailing dot segments (/docs/., /docs/guide/..)",
 "r5-C17-v1": "pooled JSON encoders keep their indentation: a Renderer with JSONIndent used before one without in the same process",
 "r5-C17-v2": "status codes outside 100-599 rewritten to 500: a render call with a status of 600..999",
 "r5-C18-v1": "Query skips parsing unless the raw query contains the name: a key that is percent-encoded or uses '+' on the wire",
 "r5-C18-v2": "QueryStrings aliases a per-request cache: the caller changes the returned slice in place and reads the key again",
})
NEEDS.update({
 "r6-C01-v1": "tree matched against URL.RawPath when it is set: a request whose wire spelling is over-escaped (%40, %31, %2F) and a route that is not fully static",
 "r6-C01-v2": "capture limit counted with strings.FieldsFunc: match-all leaf with capture: N and a request exceeding N only when empty segments are counted",
 "r6-C02-v1": "captures decoded with QueryUnescape: a captured value containing a literal '+'",
 "r6-C02-v2": "reserved parameter route set to URL.Path on the shortcut: fully static route with an optional last segment requested in its long form",
 "r6-C03-v1": "cancel check left inside the handlers loop: context cancelled during the last handler before the action, action then starts",
 "r6-C03-v2": "Next() returns at once when the response is written: a handler writes and then calls Next() with handlers behind it",
 "r6-C04-v1": "parent scope consulted before the scope's own implementors: interface parameter, implementor in the nearest scope, outer scope able to resolve it too",
 "r6-C04-v2": "Map drops typed nil values: Map((*T)(nil)) (a legal value) registers nothing",
 "r6-C05-v1": "shortcut hands every request the same Params map: handlers of concurrent requests to one static route write into Params() (data race, leaked keys)",
 "r6-C05-v2": "pooled Params maps returned uncleared on the not-found path: a 404 after a partial match through a bind, then a request that reads a parameter it does not bind",
 "r6-C06-v1": "parameter name used as fmt format string in Segment.String: a parameter list whose name contains '%'",
 "r6-C06-v2": "grammar tag ( @@ ( ',' @@ )? )+ : a parameter list with three or more parameters",
 "r6-C07-v1": "capture groups counted textually (Count('(') - Count('(?')): an earlier bind whose expression has an escaped or bracketed '(' followed by another bind, matching request - index out of range",
 "r6-C07-v2": "optional-static route also stored under its short path, Headers() evicts only the long key: short-form request failing the constraint",
 "r6-C08-v1": "an expression is compiled alone only when it contains '(': two broken expressions in one segment that balance each other ([0-9 and a])",
 "r6-C08-v2": "whitespace elided by the lexer: route text with blanks outside the places the grammar allows",
 "r6-C09-v1": "header value truncated to 4096 bytes before matching: a longer value whose verdict depends on its tail",
 "r6-C09-v2": "Headers() stops after the first leaf of a non-static route: multi-method dynamic route, request with another method failing the constraint",
 "r6-C10-v1": "presence-only criteria (empty expression) do not evict the shortcut entry: Headers(name, '') on a static route and a request without the header",
 "r6-C10-v2": "shortcut lookup upper-cases the request method: request method 'get' for a fully static GET route",
 "r6-C11-v1": "empty route path rewritten to '/' before the group prefix is applied: Get(\"\") inside a group with a non-empty path",
 "r6-C11-v2": "Combo registers through Route(method): AutoHead on, Combo().Get(), HEAD request (same root cause as r5-C11-v2, found independently)",
 "r6-C12-v1": "substitution by regexp \\{\\w+\\}: a bind name with a non-word character (user-id, file.name, **)",
 "r6-C12-v2": "every parameter named capture is skipped in the URL template: a regex bind literally named capture",
 "r6-C13-v1": "Size() not advanced when the underlying Write returns an error: partial write with error (same root cause as r5-C13-v2, found independently)",
 "r6-C13-v2": "1xx status codes bypass the once-guard and the bookkeeping: WriteHeader(103) then anything [patch rebased onto fix 90f334b]",
 "r6-C14-v1": "fast path returns nothing for an empty string: func() (int, string) returning (204, \"\")",
 "r6-C14-v2": "ReturnHandler called only when a returned value is non-zero: custom ReturnHandler and a handler returning only zero values",
 "r6-C15-v1": "source-line cache mutex not released when a source file cannot be read: a panicking stack with a frame whose file does not exist (//line, -trimpath) - Recovery never returns",
 "r6-C15-v2": "a failed Hijack marks the response written: Hijack() returns an error, then the handler panics with nothing sent - implicit 200 [patch rebased onto fix 90f334b]",
 "r6-C16-v1": "redirect target rebuilt from the uncleaned path: request path starting with '//' naming a directory, no Prefix - Location is a network-path reference",
 "r6-C16-v2": "ETag / If-None-Match handled before the directory and index checks: SetETag and a directory without index (ETag leaks into the next handler's response, replayed it gives 304)",
 "r6-C17-v1": "Content-Type only set when absent: something put another Content-Type on the response before the render call",
 "r6-C17-v2": "PlainText through Fprintf: text containing '%'",
 "r6-C18-v1": "query dropped as a whole when ParseQuery reports an error: a well-formed pair next to a malformed one (%zz, ';')",
 "r6-C18-v2": "shortcut hands every request the same Params map (as r6-C05-v1): an earlier request wrote a key that a later request reads as a bind parameter",
})
NEEDS.update({
 "r8-C01-v1": "not-found straight after a shortcut miss when the method has no dynamic route: every route of the method fully static; request for the short form of an optional-static route or with extra leading slashes",
 "r8-C01-v2": "insertion index computed before the short form of a single optional top-level segment is added: such a route registered after an equally ranked sibling - later route wins",
 "r8-C02-v1": "expression not wrapped when it 'already is a group' (starts with '(' and ends with ')'): groups in sequence or alternation such as ([0-9]+)-([0-9]+), (v1)|(v2)",
 "r8-C02-v2": "reserved parameter route taken from the registration text: a route registered in a non-canonical spelling (no blank / several blanks after ':' or ',')",
 "r8-C03-v1": "a group declared with the empty path is skipped together with its handlers: Group(\"\", fn, h)",
 "r8-C03-v2": "only context.Canceled stops the chain: request context done because its deadline has passed",
 "r8-C04-v1": "SetParent links past scopes that are empty at linking time: three nested injectors linked outermost first, middle one populated later",
 "r8-C04-v2": "Apply returns at the first unsettable tagged field: an unexported tagged field declared before an exported tagged one",
 "r8-C05-v1": "per-method tables created on demand while serving: a request with a method the router has no table for, concurrent with any other (map write vs read)",
 "r8-C05-v2": "ETag composed in a package-level buffer: Static with SetETag and overlapping requests for files",
 "r8-C06-v1": "static-route fast path indexes a 128-entry table with the raw byte: first non-identifier byte >= 0x80 - panic",
 "r8-C06-v2": "(?i) on the lexer classes: U+212A KELVIN SIGN / U+017F LONG S fold to k / s and are accepted",
 "r8-C07-v1": "rest[len(rest)-1] on an empty remainder: match-all leaf with capture limit, one captured segment followed by a trailing slash - panic",
 "r8-C07-v2": "request method upper-cased before lookup: 'get' / 'Post' served by the GET / POST route instead of the not-found chain",
 "r8-C08-v1": "stale leaf list written back after the short form '/' was added: single-segment optional route, its instance '/' is lost",
 "r8-C08-v2": "bind uniqueness inside one segment no longer recorded: /files/{name}.{name} accepted",
 "r8-C09-v1": "failed constraint on a shortcut hit answers not-found at once: constrained static route overlapping a dynamic route of the same method",
 "r8-C09-v2": "anchored literal expressions compared with EqualFold: ^prod$ and a value differing in letter case only",
 "r8-C10-v1": "reserved parameter route = URL.Path on the shortcut: optional-static route requested by its long path",
 "r8-C10-v2": "static leaf under a regex ancestor reported as fully static: stored in the shortcut under its URL template, request spelling the template literally",
 "r8-C11-v1": "router remembers the first Combo per path: a second Combo call for the same route with other common handlers",
 "r8-C11-v2": "AutoHead evaluated at request time: flag toggled during registration, or GET declared other than through Get, HEAD request",
 "r8-C12-v1": "optional segment cut at the last '/' of the substituted path: optional bind segment, built without withOptional, value containing '/'",
 "r8-C12-v2": "values with '%' decoded by QueryUnescape: a value containing both a %XX escape and '+' (round trip through the dispatched request)",
 "r8-C13-v1": "before-function list detached with [:0]: a before function registers another one while the list runs, overwriting the first-registered",
 "r8-C13-v2": "NewResponseWriter returns an existing flamego writer unchanged: wrapper around a wrapper with a different method or an already written inner one",
 "r8-C14-v1": "return values of the final action never reach the ReturnHandler: Flame.Action returning a value",
 "r8-C14-v2": "fast path for func() (int, string) writes by itself: custom ReturnHandler bypassed for that shape only",
 "r8-C15-v1": "panic detail appended when the response had already started, before the environment check: production/test mode, panic after a write",
 "r8-C15-v2": "unchecked w.(http.Flusher) on the mapped writer: a handler re-mapped http.ResponseWriter to a plain embedding wrapper - second panic escapes",
 "r8-C16-v1": "TrimRight(file, \"/.\"): a path ending in dots (/hello.txt., /docs/../) serves another entry",
 "r8-C16-v2": "method guard moved below the directory redirect: POST/PUT/... to a directory without trailing slash gets 302",
 "r8-C17-v1": "status sent with the first body byte: Render.XML of a value whose encoding is empty (empty / nil slice, nil pointer)",
 "r8-C17-v2": "caller's options overwrite the default charset: RenderOptions without Charset",
 "r8-C18-v1": "cookie escaping ranges over runes: cookie value that is not valid UTF-8",
 "r8-C18-v2": "integers parsed with base 0: 010, 0x10, 0b101, 1_000",
})
for i, (c, what) in enumerate([("16996b9", "C02"), ("b1ad9ca", "C02"), ("dc445d8", "C08"), ("50e6683", "C12"), ("8943820", "C09"), ("e71688c", "C10"), ("c547909", "C08"), ("4ac932e", "C09"), ("356c62b", "C03"), ("f4314d8", "C14"), ("9fed95b", "C11"), ("788edcd", "C10"), ("be19d8a", "C17"), ("90f334b", "C15"), ("fa20b4a", "C18"), ("c45d43e", "C16"), ("2241a41", "C09"), ("249fdcc", "C11")], 1):
    NEEDS["rev-F%02d" % i] = "reverse of fix commit %s: the defect as it was in the pinned tree (see known_findings.txt and DESIGN.md section 6)" % c
REVPROP = {"rev-F01": "C02", "rev-F02": "C02", "rev-F03": "C08", "rev-F04": "C12", "rev-F05": "C09", "rev-F06": "C10", "rev-F07": "C08", "rev-F08": "C09", "rev-F09": "C03", "rev-F10": "C14", "rev-F11": "C11", "rev-F12": "C10", "rev-F13": "C17", "rev-F14": "C15", "rev-F15": "C18", "rev-F16": "C16", "rev-F17": "C09", "rev-F18": "C11"}

for d in sorted(glob.glob(os.path.join(VERIF, "seeded", "*"))):
    name = os.path.basename(d)
    mp = os.path.join(d, "meta.json")
    if not os.path.exists(mp):
        continue
    m = json.load(open(mp))
    if name.startswith("rev-"):
        m["property"] = REVPROP.get(name, "")
        m["source"] = "reverse of a fix: commit in /repo (the defect found by this harness)"
    elif name.startswith("r2-"):
        m["property"] = name.split("-")[1]
        m["source"] = "independent sub-agent, second round (asked for less obvious sites)"
    elif name.startswith("r3-"):
        notes = os.path.join(d, "notes.md")
        first = open(notes).readline() if os.path.exists(notes) else ""
        m["property"] = first.replace("property:", "").strip()[:3]
        m["source"] = "independent sub-agent, third round (multi-function maintenance commit with one slip)"
    elif name.startswith(("r5-", "r6-", "r8-", "r9-")):
        m["property"] = name.split("-")[1]
        m["source"] = "independent sub-agent, round %s (given the list of ideas used before for its property and told to avoid them)" % name[1]
    else:
        m["property"] = name.split("-")[0]
    if name in NEEDS:
        m["needs"] = NEEDS[name]
    m.setdefault("source", "independent sub-agent given only the property text and a scratch worktree")
    json.dump(m, open(mp, "w"), indent=1)
    open(mp, "a").write("\n")
print("ok")
