#!/usr/bin/env python3
"""Splices a summary of /verif/evidence/*.json into DESIGN.md (EVTABLE markers)."""
import json, glob, os
VERIF = os.path.dirname(os.path.dirname(os.path.abspath(__file__)))
rows = []
for f in sorted(glob.glob(os.path.join(VERIF, "evidence", "C*.json"))):
    e = json.load(open(f)); c = e["coverage"]
    rows.append("| %s | %s | %d | %d | %d | %.1f | %s |" % (e["property_id"], e["tier"], c["evaluations"], c.get("elementary_evaluations", 0),
                c["distinct_nontrivial"], e["wall_s"], ", ".join("%s %s" % (k, v) for k, v in sorted(c.get("per_check", {}).items()))))
table = "\n".join(["| property | tier | cases | elementary evaluations | distinct non-trivial | wall s | cases per check |", "|---|---|---|---|---|---|---|"] + rows)
p = os.path.join(VERIF, "DESIGN.md"); s = open(p).read()
a, b = "<!-- EVTABLE:BEGIN -->", "<!-- EVTABLE:END -->"
if a in s and b in s:
    s = s[: s.index(a) + len(a)] + "\n" + table + "\n" + s[s.index(b):]
    open(p, "w").write(s)
print(table)
