#!/usr/bin/env python3
"""tools/evalseed.py <seed-dir> <name> <ID> [<ID> ...]

Confirms a seeded change (patch.diff + demo_test.go [+ notes.md]) in a scratch
copy of /repo and runs the named checks against it:
  1. the patch applies to /repo HEAD and the tree builds,
  2. the repository's suite still passes with it (baseline comparison),
  3. the demonstration fails with the patch and passes without it,
  4. each named check's quick tier is run against the patched copy (exit 1 = caught).
Writes /verif/seeded/<name>/{patch.diff,demo_test.go,notes.md,meta.json}.
The scratch copy is removed afterwards.
"""
import json, os, re, shutil, subprocess, sys, tempfile, time

VERIF = os.path.dirname(os.path.dirname(os.path.abspath(__file__)))
ENV = dict(os.environ, GOFLAGS="-mod=mod", GOPROXY="off", GOSUMDB="off", GOTOOLCHAIN="local")
BASE = json.load(open("/root/.vp/BASELINE.json"))


def sh(cmd, cwd, timeout=900, env=ENV):
    p = subprocess.run(cmd, cwd=cwd, env=env, shell=isinstance(cmd, str), stdout=subprocess.PIPE, stderr=subprocess.STDOUT, text=True, timeout=timeout)
    return p.returncode, p.stdout


def suite(repo):
    # one suite at a time on this machine: TestFlame_Run binds a fixed port, and
    # several matrix streams (tools/parmatrix.sh) would knock each other over
    import fcntl
    with open("/tmp/flamego-suite.lock", "w") as lk:
        fcntl.flock(lk, fcntl.LOCK_EX)
        return _suite(repo)


def _suite(repo):
    want = set(BASE["stable_pass"])
    for attempt in range(4):
        rc, out = sh(["go", "test", "-json", "-vet=off", "-count=1", "./..."], repo)
        passed, failed = set(), set()
        for line in out.splitlines():
            try:
                ev = json.loads(line)
            except ValueError:
                continue
            if ev.get("Test") and ev.get("Action") in ("pass", "fail"):
                (passed if ev["Action"] == "pass" else failed).add("%s::%s" % (ev["Package"], ev["Test"]))
        missing = sorted(want - passed)
        newfail = sorted(failed - set(BASE.get("always_fail", [])))
        # the root package dies silently when TestFlame_Run cannot bind its fixed port: retry
        if len(missing) > 100 and not newfail:
            time.sleep(3)
            continue
        return missing, newfail
    return missing, newfail


def demo(repo, demo_file):
    src = open(demo_file).read()
    m = re.search(r"place in:\s*(\S+)", src)
    place = m.group(1) if m else "."
    dst = os.path.join(repo, place, "zz_seed_demo_test.go")
    shutil.copy(demo_file, dst)
    names = re.findall(r"^func (Test\w+)\(", src, re.M)
    cmd = ["go", "test", "-vet=off", "-count=1", "-run", "^(%s)$" % "|".join(names), "./" + place]
    if os.environ.get("DEMO_RACE"):
        cmd.insert(2, "-race")
    rc, out = sh(cmd, repo)
    os.remove(dst)
    return rc, out[-1500:], place


def main():
    seed, name, ids = sys.argv[1], sys.argv[2], sys.argv[3:]
    patch = os.path.join(seed, "patch.diff")
    scratch = tempfile.mkdtemp(prefix="flamego-seed-", dir="/tmp")
    meta = {"name": name, "checked_at_repo_commit": sh("git rev-parse --short HEAD", "/repo")[1].strip()}
    try:
        sh("rsync -a --exclude .git /repo/ %s/" % scratch, "/")
        # demonstration on the untouched tree
        rc0, out0, place = demo(scratch, os.path.join(seed, "demo_test.go"))
        meta["demo_passes_without_patch"] = rc0 == 0
        rc, out = sh("patch -p1 -s < %s" % patch, scratch)
        meta["patch_applies"] = rc == 0
        if rc != 0:
            meta["error"] = out[-800:]
            # one line first, so that a matrix over many seeds shows it (five seeds
            # sat unnoticed for hours after a fix in /repo moved the lines they touch)
            print("%s: valid=False  PATCH-DOES-NOT-APPLY (rebase it onto /repo's HEAD)" % name)
            print(json.dumps(meta, indent=1))
            return 1
        rc, out = sh("go build ./...", scratch)
        meta["builds"] = rc == 0
        missing, newfail = suite(scratch)
        meta["suite_passes_with_patch"] = not missing and not newfail
        meta["suite_missing"], meta["suite_newfail"] = missing[:5], newfail[:5]
        rc1, out1, _ = demo(scratch, os.path.join(seed, "demo_test.go"))
        meta["demo_fails_with_patch"] = rc1 != 0
        meta["demo_dir"] = place
        meta["demo_output_with_patch"] = out1[-600:]
        meta["checks"] = {}
        for pid in ids:
            env = dict(ENV, VERIF_REPO=scratch)
            t0 = time.time()
            rc, out = sh([os.path.join(VERIF, "check"), pid, os.environ.get("TIER", "quick")], VERIF, timeout=3600, env=env)
            viol = [l for l in out.splitlines() if l.startswith("----") or l.startswith("VIOLATION") or l.startswith("INCONCLUSIVE")]
            sigs = []
            for l in out.splitlines():
                # "VIOLATION property=<id> replay=<path>": the replay file names the oracle clause that failed
                if l.startswith("VIOLATION") and "replay=" in l:
                    rp = l.split("replay=", 1)[1].strip()
                    try:
                        sg = json.load(open(rp)).get("sig", "")
                        if sg and sg not in sigs:
                            sigs.append(sg)
                    except Exception:
                        pass
            meta["checks"][pid] = {"exit": rc, "caught": rc == 1, "seconds": round(time.time() - t0, 1), "first_report": (viol[0][:600] if viol else ""), "oracle_clauses": sigs}
    finally:
        shutil.rmtree(scratch, ignore_errors=True)
    dst = os.path.join(VERIF, "seeded", name)
    os.makedirs(dst, exist_ok=True)
    for f in ("patch.diff", "demo_test.go", "notes.md"):
        if os.path.exists(os.path.join(seed, f)) and os.path.abspath(seed) != os.path.abspath(dst):
            shutil.copy(os.path.join(seed, f), os.path.join(dst, f))
    old = {}
    if os.path.exists(os.path.join(dst, "meta.json")):
        old = json.load(open(os.path.join(dst, "meta.json")))
    for k in ("property", "needs", "source"):
        if k in old:
            meta[k] = old[k]
    meta["ran"] = "tools/evalseed.py %s %s %s" % (seed, name, " ".join(ids))
    with open(os.path.join(dst, "meta.json"), "w") as f:
        json.dump(meta, f, indent=1)
        f.write("\n")
    ok = meta.get("demo_passes_without_patch") and meta.get("demo_fails_with_patch") and meta.get("suite_passes_with_patch")
    print("%s: valid=%s  %s" % (name, bool(ok), "  ".join("%s:%s" % (k, "CAUGHT" if v["caught"] else "missed(exit %s)" % v["exit"]) for k, v in meta["checks"].items())))
    for k, v in meta["checks"].items():
        if v["first_report"]:
            print("   %s %s" % (k, v["first_report"][:300]))
    return 0


if __name__ == "__main__":
    sys.exit(main())
