#!/bin/bash
# tools/benign.sh <patch.diff> [name] - false-alarm test: apply a behaviour-
# preserving commit to a scratch copy of /repo and run EVERY check's quick tier
# against it. Any exit != 0 is a false alarm to investigate (or a commit that is
# not as harmless as claimed).
root=$(cd "$(dirname "$0")/.." && pwd)   # works from a worktree of /verif too
patch=$(readlink -f "$1"); name=${2:-$(basename $(dirname "$patch"))}
scratch=$(mktemp -d /tmp/flamego-benign-XXXXXX)
trap 'rm -rf "$scratch"' EXIT
rsync -a --exclude .git /repo/ "$scratch/"
(cd "$scratch" && patch -p1 -s < "$patch") || { echo "$name PATCH-FAILED"; exit 3; }
export GOFLAGS=-mod=mod GOPROXY=off GOSUMDB=off GOTOOLCHAIN=local
(cd "$scratch" && go build ./...) || { echo "$name BUILD-FAILED"; exit 3; }
export VERIF_WORK=${VERIF_WORK:-$root/.work3}
bad=""
ids=${BENIGN_IDS:-C01 C02 C03 C04 C05 C06 C07 C08 C09 C10 C11 C12 C13 C14 C15 C16 C17 C18}   # BENIGN_IDS: only these checks
for id in $ids; do
  out=$(VERIF_REPO="$scratch" "$root/check" $id quick 2>&1); code=$?
  if [ $code -ne 0 ]; then
    bad="$bad $id(exit $code)"
    echo "$name ALARM $id exit=$code"
    echo "$out" | grep -E "^----|INCONCLUSIVE|BUILD" | head -2 | cut -c1-600
  fi
done
[ -z "$bad" ] && echo "$name silent on all $(echo $ids | wc -w) checks" || echo "$name alarms:$bad"
