#!/usr/bin/env python3
"""tools/clauses.py - which oracle clauses (the sig of evid.Fail) has a planted
change ever triggered, and which never?  Reads the clause names from the harness
sources and the `oracle_clauses` recorded by tools/evalseed.py in seeded/*/meta.json."""
import glob, json, os, re
VERIF = os.path.dirname(os.path.dirname(os.path.abspath(__file__)))
declared = {}
for d in sorted(glob.glob(os.path.join(VERIF, "harness", "c[0-9][0-9]"))):
    pid = "C" + os.path.basename(d)[1:]
    sigs = set()
    for f in glob.glob(os.path.join(d, "*_test.go")):
        src = open(f).read()
        for m in re.finditer(r'(?:evid\.Fail|fail)\(\s*(?:out,\s*)?"([^"]+)"', src):
            sigs.add(m.group(1).split(":")[0])
        # clause names computed by a helper (func sigOf ... return "name")
        for body in re.findall(r'func sigOf\([^)]*\) string \{(.*?)\n\}', src, re.S):
            sigs.update(re.findall(r'return "([a-z][a-z0-9-]+)"', body))
    declared[pid] = sigs
seen = {p: {} for p in declared}
for mp in glob.glob(os.path.join(VERIF, "seeded", "*", "meta.json")):
    m = json.load(open(mp))
    for pid, c in m.get("checks", {}).items():
        for s in c.get("oracle_clauses", []):
            seen.setdefault(pid, {}).setdefault(s.split(":")[0], []).append(os.path.basename(os.path.dirname(mp)))
for pid in sorted(declared):
    never = sorted(declared[pid] - set(seen.get(pid, {})))
    print("%s: %d clauses, %d triggered by some planted change; never: %s" % (pid, len(declared[pid]), len(declared[pid] & set(seen.get(pid, {}))), ", ".join(never) or "-"))
