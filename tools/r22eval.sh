#!/bin/bash
# tools/r20eval.sh C14 [extra check ids] - confirm and evaluate both versions a round-20
# agent left under /tmp/seed22-<ID>/v{1,2}; needs text taken from the author's notes.
root=$(cd "$(dirname "$0")/.." && pwd); cd "$root"
id=$1; shift
export VERIF_WORK=${VERIF_WORK:-$root/.work2-$id}
for v in v1 v2; do
  src=/tmp/seed22-$id/$v
  [ -f $src/patch.diff ] && [ -f $src/demo_test.go ] || { echo "r22-$id-$v: MISSING FILES"; continue; }
  race=""; { [ "$id" = C05 ] || grep -qi '^RACE: *yes' $src/notes.md 2>/dev/null; } && race=1
  DEMO_RACE=$race python3 tools/evalseed.py $src r22-$id-$v $id "$@" 2>&1 | head -3
  python3 - "$src" "r22-$id-$v" <<'PY'
import json,re,sys,os
src,name=sys.argv[1:3]
notes=open(os.path.join(src,"notes.md")).read() if os.path.exists(os.path.join(src,"notes.md")) else ""
def para(key):
    m=re.search(r'(?is)'+key+r'[^:]*:\**\s*(.*?)(?:\n\s*\n|\Z)',notes)
    return re.sub(r'\s+',' ',m.group(1)).strip() if m else ""
ch=para(r'change'); cond=para(r'condition to manifest')
txt=(ch[:240]+": needs "+cond[:420]) if ch or cond else re.sub(r'\s+',' ',notes)[:500]
p="/verif/tools/needs_r22.json"
d=json.load(open(p)) if os.path.exists(p) else {}
d[name]=txt
json.dump(d,open(p,"w"),indent=1,sort_keys=True)
PY
done
rm -rf "$VERIF_WORK"
