#!/usr/bin/env python3
"""tools/suite.py [repo]  - run the repository's test suite and compare the set
of passing tests with /root/.vp/BASELINE.json (stable_pass)."""
import json, subprocess, sys, os
repo = sys.argv[1] if len(sys.argv) > 1 else "/repo"
base = json.load(open("/root/.vp/BASELINE.json"))
want = set(base["stable_pass"])
env = dict(os.environ, GOFLAGS="-mod=mod", GOPROXY="off", GOSUMDB="off", GOTOOLCHAIN="local")
p = subprocess.run(["go", "test", "-json", "-vet=off", "-count=1", "-timeout", "25m", "./..."], cwd=repo, env=env, stdout=subprocess.PIPE, stderr=subprocess.STDOUT, text=True)
passed, failed = set(), set()
for line in p.stdout.splitlines():
    try:
        ev = json.loads(line)
    except ValueError:
        continue
    if ev.get("Test") and ev.get("Action") in ("pass", "fail"):
        name = "%s::%s" % (ev["Package"], ev["Test"])
        (passed if ev["Action"] == "pass" else failed).add(name)
missing = sorted(want - passed)
print("passed=%d failed=%d baseline=%d missing_from_baseline=%d" % (len(passed), len(failed), len(want), len(missing)))
for m in missing[:20]:
    print("  MISSING", m)
newfail = sorted(failed - set(base.get("always_fail", [])))
for m in newfail[:20]:
    print("  NEWFAIL", m)
sys.exit(1 if missing or newfail else 0)
