#!/bin/bash
# evaluate the second round of sub-agent seeds (/tmp/seed2-<ID>/vN) as r2-<ID>-vN
cd /verif
declare -A EXTRA=( [C03-v1]="C03 C11" [C11-v1]="C11 C03" [C14-v2]="C14 C13" [C09-v1]="C09 C10" [C10-v2]="C10 C09" [C17-v1]="C17 C05" [C05-v1]="C05 C04" )
for id in C01 C02 C03 C04 C05 C06 C07 C08 C09 C10 C11 C12 C13 C14 C15 C16 C17 C18; do
  for v in v1 v2; do
    [ -f /tmp/seed2-$id/$v/patch.diff ] || continue
    checks=${EXTRA[$id-$v]:-$id}
    race=""; [ "$id" = "C05" ] && race=1
    DEMO_RACE=$race python3 tools/evalseed.py /tmp/seed2-$id/$v r2-$id-$v $checks 2>&1 | head -3 | cut -c1-330
  done
done
