module github.com/flamego/flamego/verifharness

go 1.23

toolchain go1.23.5

require (
	github.com/charmbracelet/log v0.4.1
	github.com/flamego/flamego v0.0.0
	pgregory.net/rapid v1.3.0
)

require (
	github.com/alecthomas/participle/v2 v2.1.4 // indirect
	github.com/aymanbagabas/go-osc52/v2 v2.0.1 // indirect
	github.com/charmbracelet/lipgloss v1.0.0 // indirect
	github.com/charmbracelet/x/ansi v0.4.2 // indirect
	github.com/go-logfmt/logfmt v0.6.0 // indirect
	github.com/lucasb-eyer/go-colorful v1.2.0 // indirect
	github.com/mattn/go-isatty v0.0.20 // indirect
	github.com/muesli/termenv v0.16.0 // indirect
	github.com/pkg/errors v0.9.1 // indirect
	github.com/rivo/uniseg v0.4.7 // indirect
	golang.org/x/sys v0.30.0 // indirect
)

replace github.com/flamego/flamego => /tmp/flamego-seed-6manx45l
